"""Shared analyses of Decoder::decode / SegmentedPacket used by C04, C05, C06, C17, C18.

Roles are discovered from the fact base: the *table* is the single data member of
Decoder; the *message loop* is the loop in decode; the *entry class* is the mapped
type of the table; its *buffer* is its vector<uint8_t> member.
"""
from cmpverif import facts, paths
from cmpverif.build import Broken
from cmpverif.facts import (MustFacts, canon, callee_name, const_value, depends, lvalue_root, reads, strip,
                            strip_all_casts, walk, writes_of)

DEC = "ASAM::CMP::Decoder"
SEG = "ASAM::CMP::Decoder::SegmentedPacket"
EP = "ASAM::CMP::Decoder::Endpoint"
HDR = "ASAM::CMP::CmpHeader"
MH = "ASAM::CMP::MessageHeader"
KEYED_OPS = {"operator[]", "erase", "find", "at", "emplace", "insert_or_assign", "try_emplace", "count", "contains", "insert"}
HDR_GETTERS = {HDR + "::getVersion", HDR + "::getDeviceId", HDR + "::getMessageType", HDR + "::getStreamId",
               HDR + "::getSequenceCounter"}


class DecodeModel:
    def __init__(self, fb):
        self.fb = fb
        self.decode = fb.fn(DEC + "::decode")
        rec = fb.record(DEC)
        self.fields = rec["fields"]
        maps = [f for f in rec["fields"] if "unordered_map" in f["t"]["s"] or "std::map" in f["t"]["s"]]
        if len(maps) != 1:
            raise Broken("Decoder: expected exactly one map member (the reassembly table), found %d" % len(maps))
        self.table = maps[0]["qname"]
        self.table_name = maps[0]["name"]
        loops = [(b, l) for b, l in paths.loop_header(self.decode)
                 if any(callee_name(x) == "ASAM::CMP::Packet::isValidPacket" for x in walk(l.get("body", {})) if x.get("k") == "call")]
        if len(loops) != 1:
            raise Broken("Decoder::decode: expected exactly one loop that validates messages (the message walk), found %d" % len(loops))
        self.loop_block, self.loop_stmt = loops[0]
        cfg = self.decode.cfg
        self.body_entry, self.loop_exit = cfg.succ[self.loop_block]
        self.addSegment = fb.fn(SEG + "::addSegment")
        self.ctor = [f for f in fb.fns(SEG + "::SegmentedPacket") if len(f.params) >= 2]
        if len(self.ctor) != 1:
            raise Broken("SegmentedPacket: expected one data constructor")
        self.ctor = self.ctor[0]
        segrec = fb.record(SEG)
        bufs = [f for f in segrec["fields"] if f["t"]["s"].startswith("std::vector<unsigned char")]
        if len(bufs) != 1:
            raise Broken("SegmentedPacket: expected one byte-vector member (the reassembly buffer)")
        self.buffer = bufs[0]["qname"]
        self._paths = None

    # ---- table uses
    def table_uses(self, fn):
        """[(op name, call node, key node or None)] for every use of the table in fn."""
        out = []
        for n in fn.nodes():
            if n.get("k") == "member" and n.get("field") == self.table:
                p = fn.parent(n)
                # skip wrappers
                while p is not None and p.get("k") == "cast":
                    p = fn.parent(p)
                if p is not None and p.get("k") == "call" and strip_all_casts(p.get("obj", {})) is n or \
                        (p is not None and p.get("k") == "call" and "obj" in p and strip_all_casts(p["obj"]).get("id") == n["id"]):
                    nm = (p.get("callee") or {}).get("nm")
                    key = p["args"][0] if p.get("args") else None
                    out.append((nm, p, key))
                else:
                    out.append(("<raw>", n, None))
        return out

    def key_components(self, key, fn=None):
        """Endpoint initialiser components of a key expression (also through a local that
        holds the key), or None."""
        key = facts.expand(fn or self.decode, key)
        for d in walk(key):
            if d.get("k") == "initlist" and d.get("rec") == EP:
                return d["inits"]
            if d.get("k") == "construct" and d.get("rec") == EP and len(d.get("args", [])) >= 2:
                return d["args"]
        return None

    def body_paths(self):
        """Paths through one iteration of the message loop: from the body entry to
        the loop header (next iteration) or the loop exit."""
        if self._paths is None:
            stop = lambda b: b in (self.loop_block, self.loop_exit)
            ps = paths.enumerate_paths(self.decode, self.body_entry, stop)
            # a non-public Decoder helper that only decode calls (an extracted step of the loop body) is part of the loop body
            fb = self.fb

            def is_helper(g):
                if g.rec != DEC or g.raw.get("access") not in ("private", "protected") or g.raw.get("static"):
                    return False
                sites = [h for h in fb.all_functions() for c in h.nodes() if c.get("k") == "call" and fb.resolve_call(c) is g]
                return bool(sites) and all(h.key == self.decode.key for h in sites)
            self._paths = paths.splice_helpers(fb, ps, is_helper)
        return self._paths

    def path_table_ops(self, p):
        """Ordered table operations on a path: 'erase' | 'assign' | 'index' | 'other:<nm>'."""
        ops = []
        fn = self.decode
        for _, n in p.elems():
            if n.get("k") != "call" or "obj" not in n:
                continue
            o = strip_all_casts(n["obj"])
            nm = (n.get("callee") or {}).get("nm")
            if o.get("k") == "member" and o.get("field") == self.table:
                if nm == "erase":
                    ops.append(("erase", n))
                elif nm in ("operator[]", "at", "find"):
                    ops.append(("index", n))
                elif nm == "insert_or_assign":
                    ops.append(("assign", n))
                elif nm == "try_emplace" and len(n.get("args", [])) == 1:
                    ops.append(("index", n))  # try_emplace(key) is operator[]: finds the entry or default-constructs it
                elif nm in ("try_emplace", "emplace", "insert"):
                    ops.append(("insert-if-absent", n))
                else:
                    ops.append(("other:" + str(nm), n))
            elif nm == "operator=" and o.get("k") == "call" and (o.get("callee") or {}).get("nm") in ("operator[]", "at") and \
                    strip_all_casts(o.get("obj", {})).get("field") == self.table:
                ops.append(("assign", n))
        # an index immediately consumed by an assign is part of that assign
        out = []
        for i, (k, n) in enumerate(ops):
            if k == "index" and any(k2 == "assign" and strip_all_casts(n2["obj"]).get("id") == n["id"] for k2, n2 in ops):
                continue
            out.append((k, n))
        return out


class Construction:
    """One construction of a Packet from raw bytes on a decode path: directly by
    make_shared<Packet>(type, ptr, size), or through an in-repo factory function whose
    (ptr, size) parameters are passed on unchanged."""

    def __init__(self, site, fn, mk, bind):
        self.site, self.fn, self.mk, self.bind = site, fn, mk, bind

    def actual(self, arg):
        """The decode-level expression for a make_shared argument that is a pass-through parameter."""
        a = strip_all_casts(arg)
        if a.get("k") == "ref" and a.get("decl") in self.bind:
            return self.bind[a["decl"]]
        return arg

    def calls(self, path, *names):
        """Calls with one of the names that belong to this construction: on the decode path, or anywhere in the factory."""
        if not self.bind and self.fn is path.fn:
            return list(path.calls(*names))
        return [c for c in self.fn.calls(*names)] + [c for c in path.calls(*names)]


def is_make_packet(c):
    return (callee_name(c) or "").startswith("std::make_shared") and ((c.get("callee") or {}).get("targs") or [""])[0] == "ASAM::CMP::Packet"


def packet_factory(fb, g):
    """(mk node, ptr param index, size param index) when in-repo function g returns a Packet it
    built by make_shared<Packet>(type, P, S) from its own parameters P, S on a straight-line body."""
    if g is None or g.body is None or not g.cfg_raw:
        return None
    mks = [c for c in g.calls() if is_make_packet(c) and len(c.get("args", [])) == 3]
    if len(mks) != 1:
        return None
    if any(len([x for x in g.cfg.succ[b] if x is not None]) > 1 for b in g.cfg.blocks):
        return None
    pd = [p["decl"] for p in g.params]
    a1, a2 = strip_all_casts(mks[0]["args"][1]), strip_all_casts(mks[0]["args"][2])
    if a1.get("decl") not in pd or a2.get("decl") not in pd:
        return None
    if any(d in pd and d in (a1["decl"], a2["decl"]) for d, _, _ in writes_of(g)):
        return None
    rets = g.returns()
    if len(rets) != 1 or rets[0].get("e") is None:
        return None
    r = strip_all_casts(facts.expand(g, rets[0]["e"]))
    if not any(x.get("id") == mks[0]["id"] for x in walk(r)):
        return None
    return mks[0], pd.index(a1["decl"]), pd.index(a2["decl"])


def constructions(fb, p):
    """Constructions of a Packet from raw bytes on path p (direct or through a factory)."""
    out = []
    for c in p.calls():
        if is_make_packet(c) and len(c.get("args", [])) == 3:
            out.append(Construction(c, p.fn, c, {}))
            continue
        g = fb.resolve_call(c) if c.get("k") == "call" else None
        if g is not None and g.name != p.fn.name:
            pf = packet_factory(fb, g)
            if pf is not None:
                args = facts.effective_call(c).get("args", [])
                bind = {prm["decl"]: args[i] for i, prm in enumerate(g.params) if i < len(args)}
                out.append(Construction(c, g, pf[0], bind))
    return out


LABELS = {
    "valid": "ASAM::CMP::Packet::isValidPacket",
    "added": SEG + "::addSegment",
    "assembled": SEG + "::isAssembled",
}
SEGTYPE = MH + "::SegmentType"
_CMP = {"==": lambda a, b: a == b, "!=": lambda a, b: a != b, "<": lambda a, b: a < b, "<=": lambda a, b: a <= b,
        ">": lambda a, b: a > b, ">=": lambda a, b: a >= b}


def segtype_subject(fb, x):
    """When x reads a message's segment type — MessageHeader::getSegmentType() on a view, or an in-repo helper that
    returns the SegmentType of the header at its pointer parameter — the expression that says *which* message:
    the getter's object resp. the helper's pointer argument.  Else None."""
    x = strip_all_casts(x)
    if x.get("k") != "call":
        return None
    if callee_name(x) == MH + "::getSegmentType":
        return x.get("obj")
    g = fb.resolve_call(x)
    if g is not None and g.body is not None and (g.raw.get("rett") or {}).get("enum") == SEGTYPE and x.get("args"):
        rets = g.returns()
        if len(rets) == 1 and isinstance(rets[0].get("e"), dict):
            inner = strip_all_casts(facts.expand(g, rets[0]["e"]))
            if inner.get("k") == "call" and callee_name(inner) == MH + "::getSegmentType":
                pd = [q["decl"] for q in g.params]
                rd = [d for d in reads(inner.get("obj", {})) if d in pd]
                if len(rd) == 1 and pd.index(rd[0]) < len(x["args"]):
                    return x["args"][pd.index(rd[0])]
    return None


def _segtype_test(fb, fn, e, path=None, depth=0):
    """If boolean expression e is a test of MessageHeader::getSegmentType() against a constant,
    return (op, constant) such that e == (segment type `op` constant); else None.  Looks through
    locals, negations and one level of in-repo predicate functions (isSegmentedPacket-style)."""
    e = strip(e)
    if path is not None:
        e = strip(path.value_of(e))
    e = strip(facts.expand(fn, e))
    neg = False
    while e.get("k") == "un" and e.get("op") == "!":
        neg = not neg
        e = strip(e["e"])
    ops = None
    if e.get("k") == "bin" and e.get("op") in _CMP:
        ops = (e["op"], e["l"], e["r"])
    elif e.get("k") == "call" and e.get("op") in ("==", "!="):
        a = ([e["obj"]] if "obj" in e else []) + e.get("args", [])
        if len(a) == 2:
            ops = (e["op"], a[0], a[1])
    if ops is not None:
        op, l, r = ops
        for x, y, flip in ((l, r, False), (r, l, True)):
            xs = strip_all_casts(facts.expand(fn, path.value_of(x) if path is not None else x))
            if segtype_subject(fb, xs) is not None and const_value(y) is not None:
                if flip:
                    op = {"<": ">", ">": "<", "<=": ">=", ">=": "<="}.get(op, op)
                if neg:
                    op = facts._neg_op(op)
                return (op, const_value(y))
        return None
    if e.get("k") == "call" and depth < 2:
        g = fb.resolve_call(e)
        if g is not None and g.body is not None and (g.raw.get("rett") or {}).get("k") == "bool":
            rets = g.returns()
            if len(rets) == 1 and rets[0].get("e") is not None:
                t = _segtype_test(fb, g, rets[0]["e"], None, depth + 1)
                if t is not None:
                    return (facts._neg_op(t[0]), t[1]) if neg else t
    return None


def segtest_on(fb, fn, e, cur, p=None):
    """The segment-type read in e (direct, or through a predicate helper's pointer argument) looks at
    the message that starts at pointer variable `cur`."""
    x = strip_all_casts(facts.expand(fn, p.value_of(e) if p is not None else e))
    while x.get("k") == "un" and x.get("op") == "!":
        x = strip_all_casts(x["e"])
    for y in walk(x):
        subj = segtype_subject(fb, y) if y.get("k") == "call" else None
        if subj is not None:
            return cur is not None and cur in reads(subj)
        if y.get("k") == "call" and y.get("args"):
            g = fb.resolve_call(y)
            if g is not None and g.body is not None and (g.raw.get("rett") or {}).get("k") == "bool":
                return cur is not None and strip_all_casts(y["args"][0]).get("decl") == cur
    return False


def rule_segment_ends_walk(res, rid, m):
    """A segment is the last message of its frame (the rest of the frame, if any, is padding): every
    path of the message loop that handled a segment leaves the loop.  If the walk went on, padding
    after a first/intermediary segment would be parsed as a message, fail validation and take the
    invalid-message path, which erases the entry that was just opened or extended."""
    n = 0
    for p in m.body_paths():
        cls = classify(p)
        if cls in ("first-segment", "continuation-open", "continuation-completes", "continuation-rejected"):
            n += 1
            res.check(p.end_block == m.loop_exit or p.end == "exit", rid, "segment-ends-walk:%s" % cls, m.loop_stmt.get("loc"),
                      "the walk over the frame ends after a %s" % cls.replace("-", " "),
                      "after a %s the message loop continues with the bytes that follow the segment: frame padding is then parsed as a message and "
                      "its rejection erases this endpoint's pending entry" % cls.replace("-", " "))
    return n


def rule_segment_plumbing(res, rid, m):
    """What the reassembly entry stores and compares is the frame's own header value, at full width:
    each of (version, message type, sequence counter) reaches the first-segment constructor and
    addSegment from the matching CmpHeader getter unchanged, through a parameter at least as wide as
    the getter's result, and the constructor stores the parameter in a member of that width."""
    fb = m.fb
    role = getattr(m, "roles", None)
    if role is None:
        raise Broken("rule_accept_guard must run first")
    want = {"version": HDR + "::getVersion", "message type": HDR + "::getMessageType", "counter": HDR + "::getSequenceCounter"}
    n = 0
    for what, getter in want.items():
        g = fb.fn(getter)
        gw = (g.raw.get("rett") or {}).get("bits")
        fld = role.get(what)
        if fld is None or gw is None:
            raise Broken("segment plumbing: cannot bind %s" % what)
        frec = [f for f in fb.record(SEG)["fields"] if f["qname"] == fld][0]
        res.check(frec["t"].get("bits", 0) >= gw, rid, "stored-width:%s" % what, frec.get("loc"), "member holds all %d bits of %s" % (gw, getter.split("::")[-1]),
                  "the stored %s has %s bits, the header field has %d" % (what, frec["t"].get("bits"), gw))
        n += 1
        # the constructor parameter that initialises the member
        pidx = None
        for i in m.ctor.raw.get("inits", []) or []:
            if i.get("field") == fld and isinstance(i.get("e"), dict):
                src = strip_all_casts(i["e"])
                while src.get("k") in ("construct", "initlist") and len(src.get("args", src.get("inits", []))) == 1:
                    src = strip_all_casts((src.get("args") or src.get("inits"))[0])
                if src.get("dk") == "param":
                    pidx = [p["decl"] for p in m.ctor.params].index(src["decl"])
        if pidx is None:
            for d, kind, x in writes_of(m.ctor):
                if d == fld and kind == "assign" and strip_all_casts(x["r"]).get("dk") == "param":
                    pidx = [p["decl"] for p in m.ctor.params].index(strip_all_casts(x["r"])["decl"])
        res.check(pidx is not None, rid, "ctor-stores:%s" % what, m.ctor.loc, "first-segment constructor stores its %s parameter unchanged" % what,
                  "the first-segment constructor does not store a parameter in the %s member unchanged" % what)
        n += 1
        for fn, idx in ((m.ctor, pidx), (m.addSegment, None)):
            if fn is m.addSegment:
                # the parameter compared with the stored member on the accepting path
                idx = None
                for i, prm in enumerate(fn.params):
                    for x in fn.nodes():
                        if x.get("k") == "bin" and x.get("op") in ("==", "!="):
                            rd = reads(facts.inline_accessors(fb, facts.expand(fn, x)))
                            if prm["decl"] in rd and fld in rd:
                                idx = i
            if idx is None:
                res.bad(rid, "%s-param:%s" % (fn.name.split("::")[-1], what), fn.loc, "%s has no parameter that carries the frame's %s" % (fn.name, what))
                continue
            prm = fn.params[idx]
            pw = prm["t"].get("bits") or 0
            res.check(pw >= gw, rid, "%s-param-width:%s" % (fn.name.split("::")[-1], what), fn.loc,
                      "parameter `%s` has %d bits >= %d" % (prm.get("name"), pw, gw),
                      "parameter `%s` of %s has %d bits but the frame's %s has %d: the stored/compared value is truncated (messages whose %s does not fit are "
                      "dropped or mis-joined)" % (prm.get("name"), fn.name, pw, what, gw, what))
            n += 1
            for c in m.decode.nodes():
                if c.get("k") in ("call", "construct") and fb.resolve_call(c) is fn:
                    args = facts.effective_call(c).get("args", [])
                    if idx < len(args):
                        ok = facts.flows_unchanged(m.decode, args[idx], getter) and "p0:data" in depends(m.decode, args[idx])[0]
                        res.check(ok, rid, "%s-arg:%s@%s" % (fn.name.split("::")[-1], what, (c.get("loc") or "").split(":", 1)[-1]), c.get("loc"),
                                  "%s of this frame's header passed unchanged" % getter.split("::")[-1],
                                  "the %s given to %s is not this frame's %s unchanged" % (what, fn.name.split("::")[-1], getter))
                        n += 1
    return n


def rule_segtype_subject(res, rid, m):
    """Every test of a segment type inside the message loop reads the header of the message the
    validator accepted (the cursor), not some other position of the datagram."""
    fb = m.fb
    seen = set()
    n = 0
    for p in m.body_paths():
        cur = None
        for c in p.calls(LABELS["valid"]):
            if c.get("args"):
                cur = strip_all_casts(c["args"][0]).get("decl")
        for a in p.atoms:
            nodes = [a[3]] if a[0] == "truth" else ([a[4], a[5]] if a[0] == "cmp" else ([a[4]] if a[0] == "switch" and a[4] is not None else []))
            for e in nodes:
                if e.get("id") in seen:
                    continue
                is_test = (a[0] == "truth" and _segtype_test(fb, p.fn, e, p) is not None) or \
                    (a[0] != "truth" and segtype_subject(fb, facts.expand(p.fn, p.value_of(e))) is not None)
                if not is_test:
                    continue
                seen.add(e.get("id"))
                if cur is None:
                    raise Broken("message loop: the validator's pointer argument is not a plain variable; cannot tell which message a segment-type test reads")
                n += 1
                res.check(segtest_on(fb, p.fn, e, cur, p), rid, "segment-test@%s" % (e.get("loc") or "").split(":", 1)[-1], e.get("loc"),
                          "segment type read from the validated message at the cursor",
                          "this branch tests the segment type of a message other than the one isValidPacket accepted at the cursor: messages are "
                          "classified (unsegmented / first / continuation) by another message's header")
    return n


def rule_classifier_reads_type_only(res, rid, m):
    """Whether a message is unsegmented, a first segment or a continuation is a property of its segment-type bits alone.  The predicates
    the message walk branches on to tell these apart (in-repo bool functions over the cursor pair that test a segment type) compare
    nothing but the segment type: a classifier that also looks at the remaining frame size, the payload length or a flag treats some
    segments as ordinary messages (their fragment is delivered as a packet and the open reassembly dropped) or the reverse."""
    fb = m.fb
    f = m.decode
    n = 0
    seen = set()
    for c in f.calls():
        g = fb.resolve_call(c)
        if g is None or g.body is None or g.key in seen or (g.raw.get("rett") or {}).get("k") != "bool" or not g.raw.get("inrepo"):
            continue
        if g.rec not in (DEC, None) and "(anon-ns)" not in g.name:
            continue
        tests = [x for x in g.nodes() if x.get("k") == "call" and callee_name(x) == MH + "::getSegmentType"]
        if not tests:
            continue
        seen.add(g.key)
        n += 1
        other = []
        for x in g.nodes():
            if x.get("k") == "bin" and x.get("op") in ("==", "!=", "<", "<=", ">", ">="):
                sides = [facts.expand(g, x["l"]), facts.expand(g, x["r"])]
                if not any(MH + "::getSegmentType" in facts.called_names(s) for s in sides):
                    other.append(x)
            elif x.get("k") == "call" and (x.get("callee") or {}).get("inrepo") and (x.get("t") or {}).get("k") == "bool" and callee_name(x) != MH + "::getSegmentType":
                other.append(x)
        res.check(not other, rid, "classifier:%s:type-only" % g.name.split("::")[-1], (other[0] if other else g.raw).get("loc") or g.loc,
                  "%s decides by the segment type alone" % g.name.split("::")[-1],
                  "%s, which the message walk uses to tell segments from unsegmented messages, also decides by `%s`: messages whose segment bits say one "
                  "thing are handled as another" % (g.name, canon(other[0])[:80] if other else ""))
    return n


def seg_labels(fb, p):
    """Which segment types are still possible on path p, from the branch outcomes that test the
    message's segment type (directly, through a local, or through a predicate helper).
    -> {'segmented': bool|None, 'first': bool|None}"""
    enum = fb.enum(SEGTYPE)
    vals = {c["name"]: c["value"] for c in enum["enumerators"]}
    poss = set(vals.values())
    # the message under test: first argument of the validator call on this path (the cursor)
    cur = None
    for c in p.calls(LABELS["valid"]):
        if c.get("args"):
            cur = strip_all_casts(c["args"][0]).get("decl")

    def on_cursor(e):
        return segtest_on(fb, p.fn, e, cur, p)
    for a in p.atoms:
        if a[0] == "switch":
            cond = a[4]
            if cond is not None and segtype_subject(fb, facts.expand(p.fn, p.value_of(cond))) is not None and on_cursor(cond):
                poss &= ({a[2]} if a[2] != "default" else poss - set(a[3]))
            continue
        if a[0] == "cmp":
            for x, y, flip in ((a[4], a[5], False), (a[5], a[4], True)):
                xs = strip_all_casts(facts.expand(p.fn, p.value_of(x)))
                if segtype_subject(fb, xs) is not None and const_value(y) is not None and on_cursor(x):
                    op = a[2]
                    if flip:
                        op = {"<": ">", ">": "<", "<=": ">=", ">=": "<="}.get(op, op)
                    poss = {v for v in poss if _CMP[op](v, const_value(y))}
                    break
            continue
        if a[0] == "truth":
            t = _segtype_test(fb, p.fn, a[3], p)
            if t is None and a[2] is False:
                # `flag = A && B` known false while A is known true on this path: B is false
                d = facts.current_definition(p.fn, a[3]) if strip_all_casts(a[3]).get("k") == "ref" else None
                d = strip(d) if d is not None else None
                if d is not None and d.get("k") == "bin" and d.get("op") == "&&":
                    true_here = {b[1] for b in p.atoms if b[0] == "truth" and b[2] is True}
                    for l, r in ((d["l"], d["r"]), (d["r"], d["l"])):
                        if canon(strip(l)) in true_here or canon(strip_all_casts(p.value_of(l))) in true_here:
                            t2 = _segtype_test(fb, p.fn, r, p)
                            if t2 is not None and on_cursor(r):
                                poss = {v for v in poss if _CMP[facts._neg_op(t2[0])](v, t2[1])}
            if t is not None and not on_cursor(a[3]):
                t = None  # a test of some other message's segment type says nothing about this one
            if t is not None:
                op = t[0] if a[2] else facts._neg_op(t[0])
                poss = {v for v in poss if _CMP[op](v, t[1])}
    un, first = vals.get("unsegmented"), vals.get("firstSegment")
    if un is None or first is None:
        raise Broken("MessageHeader::SegmentType lost the enumerators unsegmented / firstSegment")
    return {"segmented": (False if poss == {un} else True if un not in poss else None),
            "first": (True if poss == {first} else False if first not in poss else None)}


def classify(p, fb=None):
    lab = p.truth_labels()
    g = {k: lab.get(v) for k, v in LABELS.items()}
    g.update(seg_labels(fb or p.fn.fb, p))
    if g["valid"] is False:
        return "invalid-message"
    if g["valid"] is True and g["segmented"] is False:
        return "unsegmented"
    if g["valid"] is True and g["segmented"] is True and g["first"] is True:
        return "first-segment"
    if g["valid"] is True and g["segmented"] is True and g["first"] is False and g["added"] is False:
        return "continuation-rejected"
    if g["valid"] is True and g["segmented"] is True and g["first"] is False and g["added"] is True and g["assembled"] is True:
        return "continuation-completes"
    if g["valid"] is True and g["segmented"] is True and g["first"] is False and g["added"] is True and g["assembled"] is False:
        return "continuation-open"
    return None


EXPECT_LAST = {
    "invalid-message": "erase",
    "unsegmented": "erase",
    "first-segment": "assign",
    "continuation-rejected": "erase",
    "continuation-completes": "erase",
    "continuation-open": None,
}


# ---------------------------------------------------------------------------- rules

def rule_table_only_state(res, rid, m):
    """C18-R1 / C17-R3: the table is the only persistent decoder state."""
    fb = m.fb
    rec = fb.record(DEC)
    res.check(len(rec["fields"]) == 1, rid, "Decoder:data-members", rec["loc"],
              "Decoder has exactly one non-static data member: %s" % m.table_name,
              "Decoder has %d non-static data members (%s): state besides the reassembly table survives a call" %
              (len(rec["fields"]), ", ".join(f["name"] for f in rec["fields"])))
    st = [s for s in fb.statics.values() if s["name"].startswith(DEC + "::") and not (s.get("const") or s.get("constexpr"))]
    res.check(not st, rid, "Decoder:static-members", rec["loc"], "no mutable static member or function-local static in Decoder",
              "mutable static state in Decoder: %s" % ", ".join(s["name"] for s in st))
    # decode-reachable code references no mutable static object
    reach = fb.reachable_from([m.decode])
    bad = []
    for f in reach.values():
        for n in f.nodes():
            if n.get("k") in ("ref", "member") and n.get("dk") in ("global", "staticlocal", "staticmember") and not n.get("vconst"):
                bad.append((f, n))
            if n.get("k") == "decl" and any(v.get("static") and not v["t"].get("const") for v in n.get("vars", [])):
                bad.append((f, n))
    res.check(not bad, rid, "decode-reachable:statics", m.decode.loc,
              "%d decode-reachable functions reference no mutable object with static storage duration" % len(reach),
              "decode-reachable code uses mutable static state: %s" % ", ".join("%s at %s" % (f.name, n.get("loc")) for f, n in bad[:4]))
    segrec = fb.record(SEG)
    for fld in segrec["fields"]:
        t = fld["t"]
        alias = t.get("k") == "ptr" or t.get("ref") or any(w in t["s"] for w in ("shared_ptr", "string_view", "span<", "unique_ptr"))
        res.check(not alias, rid, fld["qname"], fld["loc"], "reassembly entry member %s holds a value (%s)" % (fld["name"], t["s"]),
                  "reassembly entry member %s (%s) can alias memory outside the entry" % (fld["name"], t["s"]))


def rule_keyed_access(res, rid, m, also_methods=True):
    """C05-R1 / C18-R2: every use of the table is a keyed operation whose key is
    {deviceId, streamId} of this call's frame header, in Endpoint field order."""
    fb = m.fb
    ep = fb.record(EP)
    want = []
    for f in ep["fields"]:
        b = f["t"].get("bits")
        if b == 16:
            want.append(HDR + "::getDeviceId")
        elif b == 8:
            want.append(HDR + "::getStreamId")
        else:
            res.bad(rid, "table-key:component:%s" % f["name"], f.get("loc") or ep.get("loc"), "the reassembly key has a component `%s` (%s) besides device id and stream id: "
                    "an endpoint is (device id, stream id) — with a further component its pending state is stored under one key and looked up or "
                    "released under another whenever that component differs between frames" % (f["name"], f["t"].get("s")))
            raise Broken("Endpoint field %s has unexpected width %s" % (f["name"], b))
    if sorted(want) != sorted([HDR + "::getDeviceId", HDR + "::getStreamId"]):
        extra = [f["name"] for f in ep["fields"]]
        res.bad(rid, "table-key:components", ep.get("loc"), "the reassembly key is %s, an endpoint is exactly (16-bit device id, 8-bit stream id): pending state of one "
                "endpoint is spread over, or shared between, several entries" % extra)
        raise Broken("Endpoint is not {16-bit device id, 8-bit stream id}")
    users = [f for f in fb.all_functions() if f.name.startswith(DEC + "::") and any(
        n.get("k") == "member" and n.get("field") == m.table for n in f.nodes())]
    n_uses = 0
    def call_sites(f):
        return [(g, facts.effective_call(c)) for g in fb.all_functions() for c in g.nodes() if c.get("k") == "call" and fb.resolve_call(c) is f]

    def component_why(f, comp, getter, depth=0):
        """[] when key component comp (in f) is `getter` of this call's frame header; reasons otherwise.  In a helper that
        only decode calls, a component that is one of the helper's parameters is judged at every call site."""
        decls, calls = depends(f, comp)
        why = []
        if f.key != m.decode.key:
            pd = [q["decl"] for q in f.params]
            srcs = [d for d in decls if d in pd]
            others = [d for d in decls if d not in pd and not facts.is_local_decl(d)]
            if len(srcs) != 1 or (calls & HDR_GETTERS) or others or depth > 1:
                return ["component %s of a helper is not one of its parameters passed in by decode" % canon(comp)]
            for g, c in call_sites(f):
                idx = pd.index(srcs[0])
                if idx >= len(c.get("args", [])):
                    return ["call of %s without the key argument" % f.name]
                why += component_why(g, c["args"][idx], getter, depth + 1)
            return why
        hg = calls & HDR_GETTERS
        if hg != {getter}:
            why.append("component %s depends on header getters %s, expected exactly %s" % (canon(comp), sorted(hg), getter))
        if "p0:data" not in decls:
            why.append("component %s does not derive from this call's buffer" % canon(comp))
        if any(d == m.table or d.startswith(DEC + "::") for d in decls):
            why.append("component %s depends on decoder state" % canon(comp))
        return why
    for f in users:
        helper_ok = f.key == m.decode.key
        if not helper_ok:
            sites = call_sites(f)
            helper_ok = bool(sites) and all(g.key == m.decode.key for g, _ in sites) and f.raw.get("access") in ("private", "protected", None)
        res.check(helper_ok, rid, "table-user:" + f.name, f.loc,
                  "the table is used only inside decode" if f.key == m.decode.key else "non-public helper called only from decode",
                  "function %s touches the reassembly table outside decode" % f.name)
        for nm, call, key in m.table_uses(f):
            n_uses += 1
            kid = "%s:%s@%s" % (f.name.split("::")[-1], nm, n_uses)
            if nm not in KEYED_OPS or key is None:
                res.bad(rid, "table-op:%s:%s" % (f.name.split("::")[-1], nm), call.get("loc"),
                        "whole-table or unkeyed operation `%s` on the reassembly table: affects or observes other endpoints" % nm)
                continue
            comps = m.key_components(key, f)
            if comps is None or len(comps) != 2:
                res.bad(rid, "table-key:%s" % nm, call.get("loc"), "key of %s is not an Endpoint{device,stream} built at the call: %s" % (nm, canon(key)))
                continue
            why = []
            for comp, getter in zip(comps, want):
                why += component_why(f, comp, getter)
            ok = not why
            res.check(ok, rid, "table-key:%s#%d" % (nm, n_uses), call.get("loc"),
                      "%s keyed by {getDeviceId(), getStreamId()} of this frame's header" % nm, "; ".join(why))
    return n_uses


def _comparison_only(fn, fields):
    """The body touches key fields only through relational/logical operators on
    this->f / rhs.f (so a 3-value domain per field realises every ordering)."""
    for n in walk(fn.body):
        k = n.get("k")
        if k in ("compound", "return", "this"):
            continue
        if k == "bin" and n.get("op") in ("<", ">", "<=", ">=", "==", "!=", "&&", "||"):
            continue
        if k == "un" and n.get("op") == "!":
            continue
        if k == "cast" and n.get("ck") in ("IntegralCast", "NoOp", "LValueToRValue", "IntegralToBoolean"):
            continue
        if k == "member" and n.get("dk") == "field" and n.get("field") in fields:
            continue
        if k == "ref" and n.get("dk") == "param":
            continue
        if k == "lit" and n.get("bool"):
            continue
        return False, "%s %s" % (k, n.get("op", ""))
    return True, ""


def rule_key_equality(res, rid, m):
    """C05-R2 / C18-R3: the table's key relation separates exactly the endpoints:
    unordered_map: operator== holds iff all fields are equal, hash reads key fields only;
    map: operator< is a strict weak ordering whose equivalence is equality of all fields.
    Decided by exhaustive evaluation over the finite set of field orderings (the
    operators touch fields only through comparisons)."""
    import itertools
    fb = m.fb
    ep = fb.record(EP)
    names = [f["qname"] for f in ep["fields"]]
    short = [f["name"] for f in ep["fields"]]
    tbl_t = [f for f in m.fields if f["qname"] == m.table][0]["t"]["s"]
    ordered = tbl_t.startswith("std::map")
    # a comparator functor given as the map's third template argument (struct Less { bool operator()(const Endpoint&, const Endpoint&) const; })
    custom = None
    if ordered:
        tb = [f for f in m.fields if f["qname"] == m.table][0]["t"]
        targs = tb.get("targs") or []
        if len(targs) >= 3 and not targs[2].startswith("std::less<"):
            cands = [r for r in fb.records if r == targs[2] or r.endswith("::" + targs[2].split("::")[-1])]
            if len(cands) != 1:
                raise Broken("reassembly table uses comparator type %s, which is not a record under the analysed root" % targs[2])
            custom = fb.fn(cands[0] + "::operator()")
            if len(custom.params) != 2:
                raise Broken("%s::operator() does not take two keys" % cands[0])

    def evalop(fn, a, b):
        env = {}
        for nm, x, y in zip(short, a, b):
            if fn is custom:
                env[fn.params[0]["decl"] + "." + nm] = x
                env[fn.params[1]["decl"] + "." + nm] = y
                continue
            env["this->" + nm] = x
            env[fn.params[0]["decl"] + "." + nm] = y
        try:
            return bool(tables.ceval(fn, env))
        except tables.Unsupported as e:
            raise Broken("%s outside the comparison vocabulary: %s" % (fn.name, e))

    if not ordered:
        eq = fb.fn(EP + "::operator==")
        # bit-level: the result must be true for identical operands and false as soon as one key bit differs
        from cmpverif import g4
        interp = g4.Interp(fb)
        nbits = ep["size"] * 8
        key_bits = []
        for f in ep["fields"]:
            key_bits += list(range(f["offset_bits"], f["offset_bits"] + f["size_bits"]))
        pdecl = eq.params[0]["decl"]
        try:
            _, ret = interp.run(eq, ep["size"], {}, objs={pdecl: [g4.P("rhs", i) for i in range(nbits)]})
        except g4.Unsupported as e:
            raise Broken("Endpoint::operator== outside the G4 vocabulary: %s" % e)
        if ret is None or ret.w != 1:
            raise Broken("Endpoint::operator== does not return a boolean")
        T = ret.bits[0]
        same = {g4.P("rhs", i): g4.S(i) for i in range(nbits)}
        refl = g4.subst(T, same)
        missed = []
        for kbit in key_bits:
            env = dict(same)
            env[g4.S(kbit)] = g4.C0
            env[g4.P("rhs", kbit)] = g4.C1
            v = g4.subst(T, env)
            if v != g4.C0:
                missed.append(kbit)
        if refl != g4.C1 and not g4.is_const(refl):
            raise Broken("Endpoint::operator== does not reduce to a constant on identical operands")
        fname = {b: f["name"] for f in ep["fields"] for b in range(f["offset_bits"], f["offset_bits"] + f["size_bits"])}
        res.check(refl == g4.C1 and not missed, rid, "Endpoint::operator==", eq.loc,
                  "true on identical operands, false as soon as any of the %d key bits (%s) differs — decided per bit" % (len(key_bits), ", ".join(short)),
                  "Endpoint::operator== does not separate endpoints: operands that differ only in bit %s of %s still compare equal (%d such bits)" %
                  (missed[0] - ep["fields"][[f["name"] for f in ep["fields"]].index(fname[missed[0]])]["offset_bits"] if missed else "", fname.get(missed[0]) if missed else "", len(missed))
                  if missed else "Endpoint::operator== is not reflexive")
        h = fb.fn(DEC + "::EndpointHash::operator()")
        constants = {st["name"] for st in fb.statics.values() if st.get("const") and st.get("constant_init") and not st.get("mutable_fields")}
        rd = {d for d in reads(h.body) if "::" in d and d not in constants}  # named compile-time constants are not state
        calls = {c for c in facts.called_names(h.body) if not c.startswith(EP + "::")}
        res.check(rd <= set(names) and not calls, rid, "EndpointHash", h.loc, "hash is a function of the key only",
                  "EndpointHash reads %s / calls %s" % (sorted(rd - set(names)), sorted(calls)))
        return
    lt = custom if custom is not None else fb.fn(EP + "::operator<")
    okc, why = _comparison_only(lt, set(names))
    if not okc:
        raise Broken("%s is not comparison-only (%s)" % (lt.name, why))
    dom = list(itertools.product(range(3), repeat=len(short)))
    L = {(a, b): evalop(lt, a, b) for a in dom for b in dom}
    why = None
    for a in dom:
        if L[(a, a)]:
            why = "irreflexivity fails for %s" % (a,)
    for a in dom:
        for b in dom:
            if L[(a, b)] and L[(b, a)]:
                why = why or "asymmetry fails for %s, %s" % (a, b)
            equiv = not L[(a, b)] and not L[(b, a)]
            if equiv != (a == b):
                why = why or "endpoints %s and %s (fields %s) are %s by the ordering but %s" % (
                    a, b, short, "equivalent" if equiv else "distinct", "differ" if a != b else "are equal")
    if why is None:
        for a in dom:
            for b in dom:
                if not L[(a, b)]:
                    continue
                for c in dom:
                    if L[(b, c)] and not L[(a, c)]:
                        why = why or "transitivity fails for %s < %s < %s" % (a, b, c)
    res.check(why is None, rid, "Endpoint::operator<" if custom is None else lt.name.replace(DEC + "::", ""), lt.loc,
              "strict weak ordering whose equivalence is equality of all fields — %d triples evaluated" % len(dom) ** 3,
              "Endpoint::operator< is not a strict weak ordering that separates endpoints (%s): std::map loses or merges reassembly entries" % why)


def rule_loop_typestate(res, rid, m):
    """C17-R1: per loop-body path, the last table operation on the current key."""
    ps = m.body_paths()
    n = 0
    seen_classes = set()
    # when whole protocol cases cannot be found the classification has lost the code's structure: nothing below would be believable
    missing0 = set(EXPECT_LAST) - {classify(p) for p in ps}
    if missing0:
        # readable but wrong?  A path on which the message is known to be a first segment hands it to addSegment, or one on which it is
        # known to be a continuation builds a new entry from it: the roles of first and continuation segments are exchanged
        swapped = []
        for p in ps:
            lab = seg_labels(m.fb, p)
            if lab["segmented"] is not True:
                continue
            adds = list(p.calls(SEG + "::addSegment"))
            news = list(p.calls(SEG + "::SegmentedPacket"))
            if lab["first"] is True and adds:
                swapped.append((adds[0], "a first segment is handed to addSegment (appended to whatever the endpoint has pending) instead of opening a new message"))
            if lab["first"] is False and news and not adds:
                swapped.append((news[0], "a continuation segment opens a new reassembly entry instead of being appended to the pending message"))
        if swapped:
            seen_sw = set()
            for c, text in swapped:
                if text not in seen_sw:
                    seen_sw.add(text)
                    res.bad(rid, "path:roles-exchanged:%s" % ("first" if "first segment is" in text else "continuation"), c.get("loc"), text)
            return len(seen_sw)
        raise Broken("decode loop: protocol cases without a path: %s" % sorted(missing0))
    def already_erased(p):
        """p skips its erase under a bool local that is true only after this endpoint's entry was erased earlier in the same frame walk:
        declared false in front of the loop, set (to true only) right behind an erase of the current key, and no iteration that touches the
        table in any other way comes back to the loop — so while the flag is true the entry is absent and the erase would do nothing."""
        dec = m.decode
        cfg = dec.cfg
        for a in p.atoms:
            if a[0] != "truth" or a[2] is not True:
                continue
            x = strip_all_casts(a[3])
            if x.get("k") != "ref" or x.get("dk") != "local" or (x.get("t") or {}).get("k") != "bool":
                continue
            F = x["decl"]
            dnode = next((n0 for n0 in dec.nodes() if n0.get("k") == "decl" and any(v.get("decl") == F for v in n0.get("vars", []))), None)
            if dnode is None or any(y is dnode for y in walk(m.loop_stmt)):
                continue
            init = next(v.get("init") for v in dnode["vars"] if v.get("decl") == F)
            if not isinstance(init, dict) or const_value(init) != 0:
                continue
            asg = [n0 for n0 in dec.nodes() if n0.get("k") in ("assign", "cassign") and strip_all_casts(n0["l"]).get("decl") == F] + \
                  [n0 for n0 in dec.nodes() if n0.get("k") == "un" and n0.get("op") in ("pre++", "post++", "pre--", "post--", "&") and strip_all_casts(n0["e"]).get("decl") == F]
            ok = bool(asg)
            for n0 in asg:
                if n0.get("k") != "assign" or const_value(n0["r"]) != 1:
                    ok = False
                    break
                b0 = cfg.block_for(n0)
                before = [dec.node(e) for e in cfg.blocks[b0].get("el", []) if isinstance(e, int) and e >= 0 and cfg.pos_of.get(e, -1) < cfg.pos_of[n0["id"]]]
                if not any(y is not None and y.get("k") == "call" and (y.get("callee") or {}).get("nm") == "erase" and
                           strip_all_casts(y.get("obj", {})).get("field") == m.table for y in before):
                    ok = False
                    break
            if not ok:
                continue
            for q in ps:
                if any(k != "erase" for k, _ in m.path_table_ops(q)) and (q.blocks and q.blocks[-1] == m.loop_block or getattr(q, "end_block", None) == m.loop_block):
                    ok = False
                    break
            if ok:
                return True
        return False

    for p in ps:
        cls = classify(p)
        ops = m.path_table_ops(p)
        eff = [k for k, _ in ops if k != "index"]
        if (not eff or eff[-1] != "erase") and (cls is None or EXPECT_LAST.get(cls) == "erase") and already_erased(p):
            eff = eff + ["erase"]  # the entry is known to be gone
        desc = "%s: table ops %s" % (cls, [k for k, _ in ops])
        key = "path:%s" % (cls or "unclassified:" + ",".join("%s=%s" % (k.split("::")[-1], v) for k, v in sorted(p.truth_labels().items())))
        if cls is not None:
            seen_classes.add(cls)
        if cls is None:
            # a path the protocol states do not explain: it must not leave an entry behind
            last = eff[-1] if eff else None
            res.check(last == "erase", rid, key, m.decode.loc, "unclassified path ends with erase",
                      "a path through the message loop that matches no protocol case (%s) ends with table op %s: the "
                      "endpoint's pending state is not released" % (sorted(p.truth_labels().items()), last))
            n += 1
            continue
        seen_classes.add(cls)
        want = EXPECT_LAST[cls]
        last = eff[-1] if eff else None
        loc = ops[-1][1].get("loc") if ops else m.decode.loc
        if want is None:
            res.check(not eff, rid, key, loc, "accepted, incomplete continuation: entry kept (the one path that may leave an entry)",
                      "path %s modifies the table (%s) although the message is still incomplete" % (cls, eff))
        else:
            res.check(last == want, rid, key, loc, "%s: last table operation on the current key is %s" % (cls, want),
                      "path %s: last table operation is %s, expected %s (%s)" % (cls, last, want, desc))
        n += 1
    missing = set(EXPECT_LAST) - seen_classes
    if missing:
        raise Broken("decode loop: protocol cases without a path: %s" % sorted(missing))
    return n


def transition_binding(m, ivt, state_qname):
    """(env(s, t) -> bindings for tables.ceval, index of the parameter that carries the incoming segment type).
    Two shapes of the transition test: a member predicate over the stored state and one parameter, or a static predicate over
    (previous, next) whose every call site passes the stored state member for `previous`."""
    fb = m.fb
    state_field = "this->" + state_qname.split("::")[-1]
    if len(ivt.params) == 1:
        return (lambda s, t: {state_field: s, ivt.params[0]["decl"]: t, "__fb__": fb}), 0
    if len(ivt.params) == 2:
        sites = [(h, facts.effective_call(c)) for h in fb.all_functions() if h.body is not None for c in h.calls() if fb.resolve_call(c) is ivt]
        idx = set()
        for h, c in sites:
            for i, a in enumerate(c.get("args", [])):
                e = strip_all_casts(facts.expand(h, a))
                if e.get("k") == "member" and e.get("field") == state_qname:
                    idx.add(i)
        if sites and len(idx) == 1:
            si = idx.pop()
            ni = 1 - si
            return (lambda s, t: {ivt.params[si]["decl"]: s, ivt.params[ni]["decl"]: t, state_field: s, "__fb__": fb}), ni
    raise Broken("isValidSegmentType: cannot bind (stored state, incoming type) to its inputs")


def default_state_rejects(m, aps):
    """(ok, text): a default-constructed reassembly entry can never accept a segment because of its segment state alone."""
    fb = m.fb
    segrec = fb.record(SEG)
    st = [x for x in segrec["fields"] if x["t"].get("k") == "enum" and x["t"].get("enum") == MH + "::SegmentType"]
    if len(st) != 1:
        return False, "no single segment-state member"
    init = st[0].get("init")
    s0 = const_value(init) if isinstance(init, dict) else None
    if s0 is None and isinstance(init, dict) and init.get("k") == "initlist":
        s0 = const_value(init["inits"][0]) if init.get("inits") else 0
    if s0 is None:
        return False, "segment-state member has no constant in-class initialiser"
    vals = {e["name"]: e["value"] for e in fb.enum(MH + "::SegmentType")["enumerators"]}
    ivt = fb.fn_opt(SEG + "::isValidSegmentType") if hasattr(fb, "fn_opt") else None
    if ivt is None or not ivt.params:
        return False, "no transition test"
    for p, r, ws in aps:
        if not any(a[0] == "truth" and a[2] is True and a[3].get("k") == "call" and callee_name(a[3]) == ivt.name for a in p.atoms):
            return False, "an accepting path does not pass the transition test"
    try:
        tenv, _ = transition_binding(m, ivt, st[0]["qname"])
    except Broken as e:
        return False, str(e)
    for t in ("intermediarySegment", "lastSegment"):
        try:
            if tables.ceval(ivt, tenv(s0, vals[t])):
                return False, "default state %d accepts %s" % (s0, t)
        except tables.Unsupported as e:
            return False, "transition test outside the table vocabulary (%s)" % e
    n = 0
    for p in m.body_paths():
        if any(True for _ in p.calls(SEG + "::addSegment")):
            n += 1
            lab = seg_labels(fb, p)
            if not (lab["segmented"] is True and lab["first"] is False):
                return False, "addSegment is reachable with a segment that is not a continuation"
    if n == 0:
        return False, "no path calls addSegment"
    return True, "default state %d rejects intermediary and last segments, every accepting path passes the transition test, addSegment only " \
        "receives continuation segments" % s0


def rule_default_entry_rejected(res, rid, m):
    """C17-R1 lemma: operator[] may insert a default entry; it can never be accepted."""
    fb = m.fb
    # (a) default curVersion is 0: the member compared with the version parameter at the accept guard
    pver = [p for p in m.addSegment.params if p["t"].get("bits") == 8 and p["t"].get("k") == "int"]
    if len(pver) != 1:
        raise Broken("addSegment: cannot identify the version parameter")
    pver = pver[0]["decl"]
    vfield = None
    aps = accepting_paths(m)
    per_path = []
    for p, r, ws in aps:
        found = None
        for a in p.atoms:
            if a[0] == "cmp" and a[2] == "==":
                l, rr = strip_all_casts(a[4]), strip_all_casts(a[5])
                for x, y in ((l, rr), (rr, l)):
                    if x.get("k") == "member" and x.get("dk") == "field" and y.get("k") == "ref" and y.get("decl") == pver:
                        found = x
        per_path.append(found)
    if all(x is not None for x in per_path):
        vfield = per_path[0]
    for r in []:
        for a in []:
            if a[0] == "cmp" and a[2] == "==":
                l, rr = strip_all_casts(a[4]), strip_all_casts(a[5])
                for x, y in ((l, rr), (rr, l)):
                    if x.get("k") == "member" and x.get("dk") == "field" and y.get("k") == "ref" and y.get("decl") == pver:
                        vfield = x
    # second, independent barrier: the default entry's segment state admits no continuation segment, every accepting path passes the
    # transition test, and addSegment is only ever given continuation segments
    barrier_b, why_b = default_state_rejects(m, aps)
    if vfield is None:
        res.check(barrier_b, rid, "default-entry:state", m.addSegment.loc, "default entry rejected by its segment state: " + why_b,
                  "accepting a segment is not guarded by `stored version == frame version`, and the default entry's segment state does not reject "
                  "continuations either (%s): a default-constructed entry (inserted by operator[]) could be accepted" % why_b)
        return
    f = fb.field(SEG, vfield["name"])
    iv = const_value(f.get("init")) if isinstance(f.get("init"), dict) else None
    if iv is None and isinstance(f.get("init"), dict) and f["init"].get("k") == "initlist":
        iv = const_value(f["init"]["inits"][0]) if f["init"].get("inits") else 0
    if iv != 0 and barrier_b:
        res.ok(rid, "default-entry:state", f["loc"], "default entry has stored version %r but is rejected by its segment state: %s" % (iv, why_b))
    else:
        res.check(iv == 0, rid, "default-entry:version", f["loc"], "default entry has stored version 0 (in-class initialiser of %s)" % f["name"],
                  "default-constructed reassembly entry has version %r (and its segment state does not reject continuations: %s): a continuation "
                  "without a first segment could be accepted" % (iv, why_b))
    # (b) the message loop is only reached when the first input byte is non-zero
    mfd = MustFacts(m.decode)
    ok = False
    for a in mfd.at_block_entry(m.loop_block):
        if a[0] == "cmp" and a[2] == "!=" and (const_value(a[5]) == 0 or const_value(a[4]) == 0):
            x = strip_all_casts(a[4] if const_value(a[5]) == 0 else a[5])
            if x.get("k") == "un" and x.get("op") == "*":
                tgt = strip_all_casts(x["e"])
                if tgt.get("k") == "ref":
                    defs = facts.local_defs(m.decode).get(tgt["decl"], [])
                    if tgt.get("decl") == "p0:data" or (len(defs) == 1 and strip_all_casts(defs[0]).get("decl") == "p0:data"):
                        ok = True
    if ok or not barrier_b:
        res.check(ok, rid, "decode:first-byte-nonzero", m.decode.loc, "every path to the message loop has tested input byte 0 != 0 "
                  "(TECMP routing guard), so the frame version passed on is non-zero",
                  "the message loop is reachable with first input byte 0: a default entry (version 0) could match")
    else:
        res.ok(rid, "decode:first-byte-nonzero", m.decode.loc, "version 0 can reach the message loop, but the default entry is rejected by its segment state: " + why_b)
    # (c) the version passed to addSegment is byte 0 of the same buffer
    seen_c = set()
    adds = []
    for p in m.body_paths():  # calls in spliced helpers appear with the helper's parameters replaced by decode's arguments
        for c in p.calls(SEG + "::addSegment"):
            if (c.get("id"), c.get("_site")) not in seen_c:
                seen_c.add((c.get("id"), c.get("_site")))
                adds.append(c)
    for c in adds:
        arg = c["args"][2] if len(c.get("args", [])) >= 3 else None
        decls, calls = depends(m.decode, arg) if arg else (set(), set())
        res.check(arg is not None and (calls & HDR_GETTERS) == {HDR + "::getVersion"} and "p0:data" in decls, rid,
                  "addSegment:version-arg", c.get("loc"), "version argument is getVersion() of this frame's header",
                  "version argument of addSegment is %s" % canon(arg))


def rule_buffer_growth(res, rid, m):
    """C17-R2: the reassembly buffer is sized only in the first-segment constructor and in
    addSegment, by operations whose effect on size() is exact (resize, assign/insert of a
    range) — never reserve or another modifier."""
    fb = m.fb
    writers = {}
    for f in fb.all_functions():
        if not f.name.startswith(SEG + "::"):
            continue
        sizing = {c["id"]: kind for fld, kind, c, ln in facts.vector_sizing(f, m.buffer)}
        for d, kind, n in writes_of(f):
            if d == m.buffer and kind.startswith("call:"):
                writers.setdefault(f.name, []).append((kind, n, sizing.get(n["id"])))
    allowed = {m.ctor.name, m.addSegment.name}
    for fn, ws in sorted(writers.items()):
        for kind, n, sk in ws:
            okk = fn in allowed and sk in ("set", "grow")
            res.check(okk, rid, "%s:%s" % (fn.split("::")[-1], kind), n.get("loc") if isinstance(n, dict) else "",
                      "buffer sized by %s in %s" % (kind[5:], fn.split("::")[-1]),
                      "reassembly buffer is modified by %s in %s (only resize / range assign / range insert at end() in the constructor and addSegment "
                      "have an exact effect on size())" % (kind, fn))
    if not (set(writers) & allowed):
        raise Broken("no sizing of the reassembly buffer found")


def rule_modular_successor(res, rid, m):
    """C05-R3: the comparison that accepts a segment's sequence counter is evaluated
    in 16-bit arithmetic: neither operand is an additive expression of promoted
    (wider) type.  uint16_t temporaries and explicit conversions are accepted."""
    f = m.addSegment
    p16 = [p for p in f.params if p["t"].get("k") == "int" and p["t"].get("bits") == 16 and not p["t"].get("sg")]
    if len(p16) != 1:
        raise Broken("addSegment: cannot identify the 16-bit sequence-counter parameter")
    p16 = p16[0]["decl"]
    segrec = m.fb.record(SEG)
    f16 = {x["qname"] for x in segrec["fields"] if x["t"].get("k") == "int" and x["t"].get("bits") == 16}
    n = 0
    for x in f.nodes():
        if x.get("k") != "bin" or x.get("op") not in ("==", "!="):
            continue
        sides = (facts.inline_accessors(m.fb, x["l"]), facts.inline_accessors(m.fb, x["r"]))
        for a, b in (sides, sides[::-1]):
            da, _ = depends(f, a)
            db, _ = depends(f, b)
            if p16 in da and (db & f16):
                n += 1
                bad = None
                for side in (a, b):
                    e = side
                    while e.get("k") == "cast" and not e.get("explicit"):
                        e = e["e"]
                    t = e.get("t") or {}
                    if e.get("k") == "bin" and e.get("op") in ("+", "-") and t.get("bits", 0) > 16:
                        bad = e
                # the expected value is exactly the stored counter + 1
                succ_ok = False
                for side in (a, b):
                    def syms(z):
                        return "cur" if z.get("k") == "member" and z.get("field") in f16 else None
                    form = _linear(f, side, syms)
                    if form is not None and form.get("cur") == 1 and form.get(1, 0) == 1 and set(form) <= {"cur", 1}:
                        succ_ok = True
                res.check(succ_ok, rid, "addSegment:counter-successor", x.get("loc"), "expected counter = stored counter + 1",
                          "the sequence counter of a continuation is not compared with exactly `stored counter + 1`: %s" % canon(x))
                res.check(bad is None, rid, "addSegment:counter-compare", x.get("loc"),
                          "sequence counter compared in 16-bit arithmetic: %s" % canon(x),
                          "16-bit counter compared with `%s` evaluated in %s-bit arithmetic: 65535 + 1 = 65536 never equals the "
                          "wrapped counter 0, so a message whose segments cross the 65535->0 wrap is dropped" %
                          (canon(bad) if bad else "", (bad.get("t") or {}).get("bits") if bad else ""))
                break
    if n == 0:
        raise Broken("addSegment: no ==/!= comparison relates the sequence-counter parameter to the stored counter")
    return n


# ------------------------------------------------------------------ more decoder rules
from cmpverif import tables  # noqa: E402

COPY_FUNCS = {"memcpy", "memmove", "std::copy", "std::copy_n", "std::memcpy", "std::memmove"}


def copies_into(fn, field):
    """[(call node, dest, src, len)] for raw copies whose destination derives from `field`."""
    out = []
    for c in fn.calls():
        nm = callee_name(c)
        if nm in ("memcpy", "memmove", "std::memcpy", "std::memmove") and len(c.get("args", [])) == 3:
            dst, src, ln = c["args"]
        elif nm == "std::copy_n" and len(c.get("args", [])) == 3:
            src, ln, dst = c["args"]
        elif nm == "std::copy" and len(c.get("args", [])) == 3:
            src, ln, dst = c["args"]
        else:
            continue
        d, _ = depends(fn, dst)
        if field in d:
            out.append((c, dst, src, ln))
    # vector insert/assign on the field itself
    for n in fn.nodes():
        if n.get("k") == "call" and "obj" in n and (n.get("callee") or {}).get("nm") in ("insert", "assign") and \
                strip_all_casts(n["obj"]).get("field") == field:
            out.append((n, n["obj"], n["args"][0] if n.get("args") else None, n["args"][-1] if n.get("args") else None))
    return out


def prov_offset(f, src):
    """constant byte offset of a copy source from the function's first pointer parameter (None when it is not such a sum)"""
    pd = [p["decl"] for p in f.params if p["t"].get("k") == "ptr"]
    if not pd:
        return None

    def sy(z):
        return "P" if z.get("k") == "ref" and z.get("decl") == pd[0] else None
    x = strip_all_casts(facts.expand(f, src))
    q = _linear(f, x, sy)
    if q is not None and q.get("P") == 1 and set(k for k, v in q.items() if v) <= {"P", 1}:
        return q.get(1, 0)
    return None


def rule_declared_length(res, rid, m):
    """C05-R4: every copy into the reassembly buffer has a length that depends on
    MessageHeader::getPayloadLength() of the segment being added."""
    n = 0
    GPL = MH + "::getPayloadLength"
    for f in (m.ctor, m.addSegment):
        via_helper = any(g is not None and g.rec == f.rec and g.key != f.key and g.cfg_raw and copies_into(g, m.buffer)
                         for g in (m.fb.resolve_call(c0) for c0 in f.calls()))
        if not copies_into(f, m.buffer) and not via_helper:
            res.bad(rid, "%s:stores-the-segment" % f.name.split("::")[-1], f.loc, "%s sizes the reassembly buffer but never copies the segment's bytes into it: "
                    "the delivered payload is zeros where this segment's bytes belong" % f.name)
        for c, dst, src, ln in copies_into(f, m.buffer):
            n += 1
            decls, calls = depends(f, ln)
            ok = GPL in calls
            why = "copy length %s derives from the segment's declared payload length" % canon(ln)
            if not ok:
                # the length may be a parameter: then every call site must pass a declared length
                pl = [p["decl"] for p in f.params if p["decl"] in decls]
                sites_ok = bool(pl)
                detail = []
                if pl:
                    for g in m.fb.all_functions():
                        for cs in g.nodes():
                            if cs.get("k") in ("call", "construct") and m.fb.resolve_call(cs) is f:
                                for p in pl:
                                    idx = int(p[1:].split(":")[0])
                                    a = cs["args"][idx]
                                    _, ac = depends(g, a)
                                    if GPL not in ac:
                                        sites_ok = False
                                        detail.append("%s passes %s" % (g.name.split("::")[-1], canon(a)))
                ok = sites_ok
                why = "copy length %s is a parameter that is the remaining frame size at the call site (%s): bytes that follow " \
                      "the segment's declared length in its frame enter the message" % (canon(ln), "; ".join(detail))
            res.check(ok, rid, "%s:copy-length" % f.name.split("::")[-1], c.get("loc"), why, why)
            # ... and is exactly that: as a linear form (min() with the frame size looked through) the declared length L, plus the 16 header
            # bytes when the copy starts at the message header — one byte more lets a byte that follows the segment into the message
            if ok and GPL in calls:
                hdr16 = m.fb.record(MH)["size"]

                def syl(z):
                    if z.get("k") == "call" and callee_name(z) == GPL:
                        return "L"
                    if z.get("k") == "ref" and z.get("dk") == "param":
                        return "p:" + z["decl"]
                    return None

                def forms(x, depth=0):
                    xs = strip_all_casts(facts.expand(f, x))
                    if xs.get("k") == "ref" and xs.get("dk") == "local" and depth < 3:
                        # a clamp spelled with an `if` (`n = 16 + L; if (size < n) n = size;`): the value is one of the plain definitions
                        ds9 = facts.local_defs(f).get(xs["decl"], [])
                        if len(ds9) > 1 and not any(y.get("k") == "ref" and y.get("decl") == xs["decl"] for d9 in ds9 for y in walk(d9)):
                            out = []
                            for d9 in ds9:
                                out.extend(forms(d9, depth + 1))
                            return out
                    if xs.get("k") == "call" and callee_name(xs) == "std::min" and depth < 3:
                        out = []
                        for y in xs.get("args", []):
                            out.extend(forms(y, depth + 1))
                        return out
                    if xs.get("k") == "bin" and xs.get("op") in ("+", "-") and depth < 3 and \
                            any(y.get("k") == "call" and callee_name(y) == "std::min" for y in walk(facts.expand(f, xs))):
                        # a minimum inside a sum (`first + min(size, 16 + L) - first`): one form per choice
                        out = []
                        for a9 in forms(xs["l"], depth + 1):
                            for b9 in forms(xs["r"], depth + 1):
                                if a9 is None or b9 is None:
                                    out.append(None)
                                    continue
                                d9 = dict(a9)
                                for k9, v9 in b9.items():
                                    d9[k9] = d9.get(k9, 0) + (v9 if xs["op"] == "+" else -v9)
                                out.append(d9)
                        return out
                    return [_linear(f, xs, syl)]
                ln_e = ln
                if (strip_all_casts(facts.expand(f, ln)).get("t") or {}).get("k") == "ptr" or (strip(ln).get("t") or {}).get("k") == "ptr":
                    # a range copy (`assign(first, last)`, `std::copy(first, last, ..)`): the count is last - first
                    ln_e = {"k": "bin", "op": "-", "l": ln, "r": src, "t": {"k": "int", "bits": 64, "sg": True}}
                fl = [q for q in forms(ln_e) if q is not None]
                withL = [q for q in fl if q.get("L")]
                src_off = prov_offset(f, src)
                want_c = hdr16 if src_off == 0 else 0
                exact = bool(withL) and all(q.get("L") == 1 and q.get(1, 0) == want_c and set(k9 for k9, v9 in q.items() if v9) <= {"L", 1} for q in withL)
                if src_off in (0, hdr16):
                    res.check(exact, rid, "%s:copy-length-exact" % f.name.split("::")[-1], c.get("loc"),
                              "copy length = declared length%s" % (" + %d (header included)" % hdr16 if want_c else ""),
                              "the copy into the reassembly buffer takes `%s` bytes where the segment has %s: bytes that are not part of the segment enter "
                              "(or bytes of it are left out of) the message" % (canon(ln)[:70], "its %d header bytes + the declared length" % hdr16 if want_c else "the declared length"))
            # ... computed at full width: the frame may hold 64 KiB or more behind the message (trailing bytes count), so a frame size
            # converted to 16 bits on the way into min()/the comparison cuts the segment short
            from rules.encoder_rules import narrowings
            szp = {p["decl"] for p in f.params if (p["t"].get("k") == "int" and p["t"].get("bits", 0) >= 32)}
            nar = [x for x in narrowings(f, ln, limit_bits=32) if szp & depends(f, x["e"])[0] and not (GPL in depends(f, x["e"])[1] and not szp & reads(x["e"]))]
            res.check(not nar, rid, "%s:copy-length-width" % f.name.split("::")[-1], c.get("loc"), "the frame size enters the copy length at full width",
                      "the copy length `%s` converts the frame size to %s bits: with 64 KiB or more behind the message header the stored segment is "
                      "shorter than its declared payload" % (canon(ln)[:80], (nar[0].get("t") or {}).get("bits") if nar else "?"))
    return n


class NoAcceptingPath(Broken):
    pass


def entry_writes(m):
    """All writes addSegment makes to the entry: member writes, copies into the
    buffer, writes through the header view."""
    f = m.addSegment
    ws = []
    for d, kind, n in writes_of(f):
        if isinstance(n, dict) and (d.startswith(SEG + "::")):
            ws.append((d, kind, n))
    for c, dst, src, ln in copies_into(f, m.buffer):
        ws.append((m.buffer, "copy", c))
    for c in f.calls():
        if "obj" in c and not (c.get("callee") or {}).get("const"):
            o = strip_all_casts(c["obj"])
            if o.get("k") == "call" and (o.get("callee") or {}).get("nm") == "getHeader":
                ws.append((m.buffer, "header-write", c))
    if len(ws) < 4:
        raise Broken("addSegment: expected at least 4 writes to the entry, found %d" % len(ws))
    return ws


def accept_point(m):
    """The first write to the entry in addSegment (its block dominates all other writes)."""
    f = m.addSegment
    cfg = f.cfg
    ws = entry_writes(m)
    best = None
    for d, kind, n in ws:
        b = cfg.block_for(n)
        first = min((x["id"] for x in walk(n) if x["id"] in cfg.pos_of and cfg.block_of[x["id"]] == b), key=lambda i: cfg.pos_of[i])
        key = (b, cfg.pos_of[first])
        if best is None:
            best = (key, n)
            continue
        (bb, bp), _ = best
        if b == bb:
            if cfg.pos_of[first] < bp:
                best = (key, n)
        elif cfg.dominates(b, bb):
            best = (key, n)
    (bb, _), node = best
    for d, kind, n in ws:
        if not cfg.dominates(bb, cfg.block_for(n)):
            raise Broken("addSegment: writes to the entry are not dominated by one accept point")
    return node


def expand_locals(fn, n, depth=3):
    """Nodes of expression n with single-definition locals replaced by their initialiser."""
    defs = facts.local_defs(fn)
    out = []
    st = [(n, depth)]
    seen = set()
    while st:
        x, d = st.pop()
        for y in walk(x):
            out.append(y)
            if y.get("k") == "ref" and y.get("dk") == "local" and d > 0 and y["decl"] not in seen:
                ds = defs.get(y["decl"], [])
                if len(ds) == 1:
                    seen.add(y["decl"])
                    st.append((ds[0], d - 1))
    return out


def accepting_paths(m):
    """Paths of addSegment that return true, each with its atoms and its entry writes in path order."""
    f = m.addSegment
    if (f.raw.get("rett") or {}).get("k") != "bool":
        raise Broken("SegmentedPacket::addSegment no longer returns bool (accepted / rejected): the accept/reject rules must be re-derived")
    wids = {n["id"]: (d, kind) for d, kind, n in entry_writes(m)}
    out = []
    for p in paths.enumerate_paths(f):
        r = p.returns()
        if r is None:
            continue
        v = p.value_of(r["e"], before=r["id"])
        if const_value(v) == 0:
            continue
        ws = [(wids[x["id"]], x) for _, x in p.elems() if x["id"] in wids]
        out.append((p, r, ws))
    if not out:
        raise NoAcceptingPath("addSegment has no accepting path")
    return out


def rule_accept_guard(res, rid, m):
    """C05-R5: addSegment accepts only under version ==, message type ==, counter ==
    successor, valid transition; transition table equals the protocol's."""
    fb = m.fb
    f = m.addSegment
    segrec = fb.record(SEG)
    scal = [x for x in segrec["fields"] if x["t"].get("k") in ("int", "enum") and x["qname"] != m.buffer]
    # stored scalars: version (8-bit int), message type (enum CmpHeader::MessageType), counter (16-bit), segment state (enum SegmentType)
    role = {}
    for x in scal:
        t = x["t"]
        if t.get("k") == "enum" and t.get("enum") == HDR + "::MessageType":
            role["message type"] = x["qname"]
        elif t.get("k") == "enum" and t.get("enum") == MH + "::SegmentType":
            role["segment state"] = x["qname"]
        elif t.get("k") == "int" and t.get("bits") == 8:
            role["version"] = x["qname"]
        elif t.get("k") == "int" and t.get("bits") == 16:
            role["counter"] = x["qname"]
    if set(role) != {"message type", "segment state", "version", "counter"}:
        raise Broken("SegmentedPacket: cannot bind stored version/type/counter/state members: %s" % role)
    m.roles = role
    params = {p["decl"] for p in f.params}
    try:
        aps = accepting_paths(m)
    except NoAcceptingPath:
        res.bad(rid, "addSegment:accepts", f.loc, "no path through addSegment returns true: every continuation segment is rejected and no segmented "
                "message is ever completed")
        raise
    for pi, (p, r, ws) in enumerate(aps):
        tag = "" if len(aps) == 1 else "#%d" % (pi + 1)
        atoms = p.atoms
        for what in ("version", "message type", "counter"):
            fld = role[what]
            hit = None
            for a in atoms:
                if a[0] == "cmp" and a[2] == "==":
                    dl, _ = depends(f, facts.inline_accessors(fb, a[4]))
                    dr, _ = depends(f, facts.inline_accessors(fb, a[5]))
                    if (fld in dl and dr & params) or (fld in dr and dl & params):
                        hit = a
            res.check(hit is not None, rid, "addSegment:accept-needs-%s%s" % (what.replace(" ", "-"), tag), r.get("loc"),
                      "accept path is guarded by `%s %s %s`" % ((hit[1], hit[2], hit[3]) if hit else ("", "", "")),
                      "a segment can be accepted without the stored %s matching the frame's: fragments of different messages can be mixed" % what)
        hit = None
        for a in atoms:
            if a[0] == "truth" and a[2] is True and a[3].get("k") == "call" and callee_name(a[3]) == SEG + "::isValidSegmentType":
                hit = a
        res.check(hit is not None, rid, "addSegment:accept-needs-transition%s" % tag, r.get("loc"), "accept path is guarded by isValidSegmentType(type)",
                  "a segment can be accepted without a valid segment-type transition")
        # every accepting path performs the sibling state updates: counter advanced exactly once, segment state stored
        def is_successor(x):
            """++counter, or counter = counter + 1 (as a linear form; the conversion to the 16-bit member wraps it)"""
            def syms(z):
                return "cur" if z.get("k") == "member" and z.get("field") == role["counter"] else None
            form = _linear(f, x["r"], syms) if x.get("k") == "assign" else None
            return form is not None and form.get("cur") == 1 and form.get(1, 0) == 1 and set(form) <= {"cur", 1}
        incs = [x for (d, kind), x in ws if d == role["counter"] and (kind in ("pre++", "post++") or (kind == "assign" and is_successor(x)))]
        other_cnt = [x for (d, kind), x in ws if d == role["counter"] and not (kind in ("pre++", "post++") or (kind == "assign" and is_successor(x)))]
        res.check(len(incs) == 1 and not other_cnt, rid, "addSegment:accept-advances-counter%s" % tag, r.get("loc"),
                  "the stored counter is advanced exactly once on this accepting path",
                  "an accepting path of addSegment advances the stored sequence counter %d times (%s): the next well-formed segment is then rejected as "
                  "out of sequence" % (len(incs), "other writes: %d" % len(other_cnt)))
        st = [x for (d, kind), x in ws if d == role["segment state"] and kind == "assign"]
        _ivt = fb.fn(SEG + "::isValidSegmentType")
        _ni = transition_binding(m, _ivt, role["segment state"])[1]
        okst = len(st) == 1 and canon(strip_all_casts(facts.expand(f, st[0]["r"]))) in {canon(strip_all_casts(facts.expand(f, facts.effective_call(a2[3])["args"][_ni]))) for a2 in atoms
                                                                     if a2[0] == "truth" and a2[3].get("k") == "call" and callee_name(a2[3]) == SEG + "::isValidSegmentType"}
        res.check(okst, rid, "addSegment:accept-stores-state%s" % tag, r.get("loc"), "the segment state becomes the accepted segment's type",
                  "an accepting path of addSegment does not store the accepted segment's type as the new state")
    # transition table
    ivt = fb.fn(SEG + "::isValidSegmentType")
    en = fb.enum(MH + "::SegmentType")
    vals = {e["name"]: e["value"] for e in en["enumerators"]}
    want = {"unsegmented": {"unsegmented", "firstSegment"}, "lastSegment": {"unsegmented", "firstSegment"},
            "firstSegment": {"intermediarySegment", "lastSegment"}, "intermediarySegment": {"intermediarySegment", "lastSegment"}}
    if set(vals) != set(want):
        raise Broken("SegmentType enumerators changed: %s" % sorted(vals))
    tenv, _ = transition_binding(m, ivt, role["segment state"])
    # segment types that can reach addSegment at all: when decode hands it continuation segments only, the answers for
    # `unsegmented` and `firstSegment` are unobservable and a table that rejects them is the same program
    reach = set(want)
    try:
        labs = [seg_labels(fb, p) for p in m.body_paths() if any(True for _ in p.calls(SEG + "::addSegment"))]
        if labs and all(l["segmented"] is True and l["first"] is False for l in labs):
            reach = {"intermediarySegment", "lastSegment"}
    except Broken:
        pass
    for s in sorted(want):
        for t in sorted(want):
            if t not in reach:
                try:
                    tables.ceval(ivt, tenv(vals[s], vals[t]))
                except tables.Unsupported as e:
                    raise Broken("isValidSegmentType outside the table vocabulary: %s" % e)
                res.ok(rid, "transition:%s->%s" % (s, t), ivt.loc, "%s -> %s: never asked (addSegment only receives continuation segments)" % (s, t))
                continue
            try:
                got = tables.ceval(ivt, tenv(vals[s], vals[t]))
            except tables.Unsupported as e:
                raise Broken("isValidSegmentType outside the table vocabulary: %s" % e)
            exp = t in want[s]
            res.check(bool(got) == exp, rid, "transition:%s->%s" % (s, t), ivt.loc,
                      "%s -> %s is %s" % (s, t, "accepted" if exp else "rejected"),
                      "segment-type transition %s -> %s is %s by the code, the protocol says %s" %
                      (s, t, "accepted" if got else "rejected", "accepted" if exp else "rejected"))


def rule_assembled_by_state(res, rid, m):
    """isAssembled() is true exactly in state lastSegment and depends on nothing else: decode releases an entry only
    when a segment is rejected or the message is assembled, so any further condition leaves a finished message
    neither delivered nor released."""
    fb = m.fb
    role = getattr(m, "roles", None)
    if role is None:
        raise Broken("rule_accept_guard must run first")
    ia = fb.fn(SEG + "::isAssembled")
    en = fb.enum(MH + "::SegmentType")
    sf = "this->" + role["segment state"].split("::")[-1]
    other = sorted({x.get("field") for x in ia.nodes() if x.get("k") == "member" and x.get("dk") == "field" and x.get("field") != role["segment state"]} - {None})
    calls = sorted({callee_name(x) for x in ia.calls()} - {None})
    if other or calls:
        res.bad(rid, "isAssembled:state-only", ia.loc,
                "isAssembled() also depends on %s: a message whose last segment was accepted can stay 'not assembled' — it is then neither "
                "delivered nor released (decode erases only on rejection or completion)" % ", ".join([o.split("::")[-1] for o in other] + [c.split("::")[-1] + "()" for c in calls]))
        return
    for e in en["enumerators"]:
        try:
            got = tables.ceval(ia, {sf: e["value"]})
        except tables.Unsupported as ex:
            raise Broken("isAssembled outside the table vocabulary: %s" % ex)
        res.check(bool(got) == (e["name"] == "lastSegment"), rid, "isAssembled:%s" % e["name"], ia.loc,
                  "isAssembled() is %s in state %s" % (bool(got), e["name"]),
                  "isAssembled() returns %s in state %s: delivery does not happen exactly on the last segment" % (bool(got), e["name"]))


def rule_deliver_release(res, rid, m):
    """C05-R6: delivery on last segment from the current key's entry; stored version /
    message type are given to the packet and written only by the first-segment constructor."""
    fb = m.fb
    role = getattr(m, "roles", None)
    if role is None:
        raise Broken("rule_accept_guard must run first")
    rule_assembled_by_state(res, rid, m)
    gp = fb.fn(SEG + "::getPacket")
    mk = [c for c in gp.calls() if (callee_name(c) or "").startswith("std::make_shared")]
    ok = False
    for c in mk:
        a = c.get("args", [])
        if len(a) == 3:
            d0, _ = depends(gp, a[0])
            d1, _ = depends(gp, a[1])
            d2, _ = depends(gp, a[2])
            ok = role["message type"] in d0 and m.buffer in d1 and m.buffer in d2
    res.check(ok, rid, "getPacket:sources", gp.loc, "packet built from the stored message type and the reassembly buffer",
              "getPacket does not build the packet from the stored message type and buffer")
    sv = [c for c in gp.calls("ASAM::CMP::Packet::setVersion")]
    okv = bool(sv) and all(role["version"] in depends(gp, c["args"][0])[0] for c in sv)
    res.check(okv, rid, "getPacket:version", gp.loc, "packet version is the stored (first-segment) version",
              "getPacket does not give the packet the stored first-segment version")
    # writers of the stored version / message type: constructor initialisers only
    for what in ("version", "message type"):
        ws = []
        for f in fb.all_functions():
            if f.name.startswith(SEG + "::") or f.name.startswith(DEC + "::"):
                for d, kind, n in writes_of(f):
                    if d == role[what]:
                        ws.append((f.name, kind))
        okw = ws and all(fn == m.ctor.name and kind == "ctor-init" for fn, kind in ws)
        res.check(okw, rid, "writers:%s" % what.replace(" ", "-"), m.ctor.loc, "stored %s is written only by the first-segment constructor" % what,
                  "stored %s is also written by %s" % (what, [w for w in ws if w != (m.ctor.name, "ctor-init")]))
    # in decode: on the completing path the pushed packet comes from getPacket() of the current key's entry
    for p in m.body_paths():
        if classify(p) != "continuation-completes":
            continue
        pushes = [n for n in p.calls("std::vector::push_back", "std::vector::emplace_back")]
        okp = False
        for pb in pushes:
            v = paths.path_value(p, pb["args"][0], before=pb["id"])
            if SEG + "::getPacket" in facts.called_names(v):
                okp = True
        res.check(okp, rid, "decode:deliver-from-entry", pushes[0].get("loc") if pushes else m.decode.loc,
                  "the delivered packet is getPacket() of the current key's entry", "completing path does not deliver getPacket() of the entry")


def rule_reject_pure(res, rid, m):
    """C06-R2: no member of the entry is written on a path of addSegment that can
    still return false."""
    f = m.addSegment
    cfg = f.cfg
    ws = entry_writes(m)
    false_rets = [n for n in f.nodes() if n.get("k") == "return" and const_value(n.get("e")) != 1]
    for d, kind, n in ws:
        wb = cfg.block_for(n)
        # blocks reachable after the write
        seen = set()
        st = [s for s in cfg.succ[wb] if s is not None]
        while st:
            b = st.pop()
            if b in seen:
                continue
            seen.add(b)
            st.extend(s for s in cfg.succ[b] if s is not None)
        later_false = [r for r in false_rets if cfg.block_for(r) in seen]
        res.check(not later_false, rid, "addSegment:write:%s:%s" % (d.split("::")[-1], kind), n.get("loc"),
                  "write happens after the last reject test", "entry member %s is written (%s) before a `return false` at %s: a rejected "
                  "segment leaves the open message modified" % (d.split("::")[-1], kind, later_false[0].get("loc") if later_false else ""))


def rule_first_restart(res, rid, m):
    """C06-R3: on the first-segment path the entry is overwritten by a freshly
    constructed SegmentedPacket; neither the new value nor the decision reads the old entry."""
    n = 0
    for p in m.body_paths():
        if classify(p) != "first-segment":
            continue
        ops = m.path_table_ops(p)
        reads_old = [k for k, _ in ops if k == "index" or k.startswith("other:") or k == "insert-if-absent"]
        assigns = [nn for k, nn in ops if k == "assign"]
        ok = bool(assigns) and not reads_old
        src_ok = False
        for a in assigns:
            ns = [y for arg in a.get("args", []) for y in walk(paths.path_value(p, arg, before=a.get("id")))] + \
                [y for arg in a.get("args", []) for y in expand_locals(m.decode, arg)]
            built = any(x.get("k") == "construct" and x.get("rec") == SEG and len(x.get("args", [])) >= 2 for x in ns)
            reads_table = any(x.get("k") == "member" and x.get("field") == m.table for x in ns)
            if built and not reads_table:
                src_ok = True
        n += 1
        res.check(ok and src_ok, rid, "first-segment:fresh-entry", assigns[0].get("loc") if assigns else m.decode.loc,
                  "entry := SegmentedPacket constructed from the current segment; old entry not read",
                  "first-segment path reads the old entry (%s) or does not assign a freshly constructed SegmentedPacket" % reads_old)
    if n == 0:
        raise Broken("no first-segment path")


def rule_unsegmented_delivered(res, rid, m):
    """C06-R4: an unsegmented valid message is always delivered (push of a packet
    built from the current cursor) and does not read the table."""
    for p in m.body_paths():
        if classify(p) != "unsegmented":
            continue
        ops = m.path_table_ops(p)
        pushes = list(p.calls("std::vector::push_back", "std::vector::emplace_back"))
        mk = constructions(m.fb, p)
        ok = len(pushes) == 1 and len(mk) == 1 and all(k == "erase" for k, _ in ops)
        res.check(ok, rid, "unsegmented:delivered", pushes[0].get("loc") if pushes else m.decode.loc,
                  "one packet constructed and pushed; table only erased", "unsegmented path pushes %d packet(s), table ops %s" % (len(pushes), [k for k, _ in ops]))


def rule_early_returns(res, rid, m):
    """C18-R5: every table use is dominated by the undersized-buffer and TECMP early
    returns; the TECMP decoder cannot reach the table (static functions of other classes)."""
    fb = m.fb
    mf = MustFacts(m.decode)
    fs = mf.at_block_entry(m.loop_block)
    size_ok = facts.fact_implies_ge(fs, "p1:size", fb.record(HDR)["size"])
    res.check(size_ok is not None, rid, "decode:size-guard", m.decode.loc, "message loop entered only with size >= sizeof(CmpHeader)",
              "the message loop (and the table) is reachable with a buffer shorter than a frame header")
    uses = m.table_uses(m.decode)
    cfg = m.decode.cfg
    dom = cfg.dominators()
    bad = [c for _, c, _ in uses if m.loop_block not in dom.get(cfg.block_for(c), set())]
    res.check(not bad, rid, "decode:table-inside-loop", m.decode.loc, "all %d table uses lie inside the message loop (after both early returns)" % len(uses),
              "table use outside the guarded message loop at %s" % (bad[0].get("loc") if bad else ""))
    tec = [f for f in fb.all_functions() if f.name.startswith("TECMP::Decoder::") or f.name.startswith("TECMP::Converter::")]
    for f in tec:
        takes = any("ASAM::CMP::Decoder" in (p["t"].get("s") or "") for p in f.params)
        res.check(bool(f.raw.get("static")) and not takes, rid, "tecmp:" + f.name, f.loc, "static function without Decoder parameter",
                  "%s can reach decoder state (static=%s, Decoder parameter=%s)" % (f.name, f.raw.get("static"), takes))
    if len(tec) < 15:
        raise Broken("TECMP decoder/converter functions not found")


def _first_byte_test(fn, a):
    """atom a compares input byte 0 (`*data`, `data[0]` through a local copy of the pointer, or the frame header's version) with 0:
    returns '==' / '!=' (the relation that holds) or None"""
    if a[0] == "truth":
        x, rel = a[3], ("!=" if a[2] else "==")
    elif a[0] == "cmp" and a[2] in ("==", "!=") and (const_value(a[5]) == 0 or const_value(a[4]) == 0):
        x, rel = (a[4] if const_value(a[5]) == 0 else a[5]), a[2]
    else:
        return None
    x = strip_all_casts(facts.expand(fn, x))
    data = fn.params[0]["decl"]

    def from_data(p):
        p = strip_all_casts(facts.expand(fn, p))
        return p.get("k") == "ref" and p.get("decl") == data
    if x.get("k") == "un" and x.get("op") == "*" and from_data(x["e"]):
        return rel
    if x.get("k") == "subscript" and const_value(x["idx"]) == 0 and from_data(x["base"]):
        return rel
    if x.get("k") == "call" and callee_name(x) == HDR + "::getVersion" and "obj" in x and from_data(x["obj"]):
        return rel
    return None


def rule_entry_classification(res, rid, m, parts=("early-returns", "cm-path")):
    """How decode sorts a buffer before the message walk.  (early-returns) it leaves without walking only when there is no buffer, when
    the buffer cannot hold a frame header (size < K, K <= sizeof(CmpHeader)) or when it hands the buffer to the TECMP decoder under
    `byte 0 == 0`: any stricter test (a minimum of header + message header, a plausibility check) makes frames of an endpoint vanish
    without the invalid-message handling — an open reassembly of that endpoint is neither continued nor dropped.  (cm-path) the walk is
    only reached with byte 0 != 0 established: a zero-leading buffer that is not handed to the TECMP decoder would be read as a frame of
    endpoint (bytes 2-3, byte 5) and open or drop that endpoint's entry."""
    fn, fb = m.decode, m.fb
    H = fb.record(HDR)["size"]
    sizep = fn.params[1]["decl"]
    datap = fn.params[0]["decl"]
    n = 0
    if "early-returns" in parts:
        for p in paths.enumerate_paths(fn, None, lambda b: b == m.loop_block):
            if p.end != "exit":
                continue
            r = p.returns()
            # what is known when the function leaves: the atoms of the path, one-line predicates looked through
            known = []
            for a in p.atoms:
                known.append(a)
                if a[0] == "truth" and isinstance(a[3], dict):
                    known.extend(facts.conjuncts(a[3], a[2], fn)[1:])
            reason = None
            for a in known:
                if _first_byte_test(fn, a) == "==":
                    reason = "TECMP"
                if a[0] == "cmp":
                    for x, y, op in ((a[4], a[5], a[2]), (a[5], a[4], facts._flip_op(a[2]))):
                        xs = strip_all_casts(facts.expand(fn, x))
                        if xs.get("k") == "ref" and xs.get("decl") == sizep:
                            c = const_value(strip_all_casts(facts.expand(fn, y)))
                            if c is not None and ((op == "<" and c <= H) or (op == "<=" and c < H) or (op == "==" and c < H)):
                                reason = reason or "no frame header"
                        if xs.get("k") == "ref" and xs.get("decl") == datap and op == "==" and (strip_all_casts(y).get("null") or const_value(y) == 0):
                            reason = reason or "no buffer"
                if a[0] == "truth" and a[2] is False and strip_all_casts(facts.expand(fn, a[3])).get("decl") == datap:
                    reason = reason or "no buffer"
            n += 1
            last = p.atoms[-1] if p.atoms else None
            key = "decode:early-return@%s" % ((r.get("loc") or "").split(":", 1)[-1] if r else "?")
            res.check(reason is not None, rid, key, (r or {}).get("loc") or fn.loc, "leaves before the walk only for: %s" % reason,
                      "decode returns before the message walk under `%s %s %s`, which is neither 'no buffer', 'shorter than a frame header' nor the TECMP "
                      "hand-over: such a frame of an endpoint with a reassembly in progress is neither walked nor does it drop the entry" %
                      ((last[1][:50], last[2], str(last[3])[:40]) if last and last[0] == "cmp" else (last[1][:60] if last else "", "is", last[2] if last else "")))
        # ... and the walk itself starts as soon as a single byte follows the frame header (a remainder too short for a message header is an
        # invalid message, handled inside: it drops the endpoint's open reassembly)
        leaf = fn.cfg.branch_leaf(m.loop_block)
        a = facts.atom_of(leaf, True) if leaf is not None else None
        if a is not None and a[0] == "cmp":
            for x, y, o in ((a[4], a[5], a[2]), (a[5], a[4], facts._flip_op(a[2]))):
                c = const_value(strip_all_casts(facts.expand(fn, y)))
                if c is not None and (strip_all_casts(x).get("t") or {}).get("k") in ("int",):
                    n += 1
                    okc = (o == ">" and c < 1) or (o == ">=" and c <= 1) or (o == "!=" and c == 0)
                    res.check(okc, rid, "decode:walk-starts-with-one-byte", leaf.get("loc"), "the walk is entered whenever at least one byte follows the frame header",
                              "the message walk is only entered under `%s`: a frame with fewer bytes behind its header is dropped at the door instead of "
                              "being handled as an invalid message (which drops the endpoint's open reassembly)" % canon(leaf)[:80])
                    break
    if "cm-path" in parts:
        ok = any(_first_byte_test(fn, a) == "!=" for a in MustFacts(fn).at_block_entry(m.loop_block))
        if not ok:
            # path-sensitive: every path to the loop has established it (a join with an infeasible path loses the must-fact)
            ps = [p for p in paths.enumerate_paths(fn, None, lambda b: b == m.loop_block) if p.end == "stop"]
            ok = bool(ps) and all(any(_first_byte_test(fn, a) == "!=" for a in p.atoms) for p in ps)
        n += 1
        res.check(ok, rid, "decode:cm-path-excludes-zero-leading", fn.loc, "the message walk is only reached with input byte 0 != 0",
                  "a buffer whose first byte is 0 can reach the capture-module message walk (it is not handed to the TECMP decoder on every path): it "
                  "is read as a frame of endpoint (bytes 2-3, byte 5) and opens, continues or drops that endpoint's reassembly entry")
    return n


REASSEMBLY_READS = {HDR: ("Version", "DeviceId", "MessageType", "StreamId", "SequenceCounter"), MH: ("SegmentType", "PayloadLength")}


def rule_header_reads(res, rid, ctx, fb):
    """What the reassembler acts on is what the wire says: the getters it reads its key, counter, version, message type, segment type and
    declared length through return exactly their wire fields (engine and oracle of C12; e.g. a segment-type getter that lets neighbouring
    flag bits through makes a flagged segment look like no segment at all)."""
    from cmpverif import accessors
    obs, ast = accessors.analyse(fb, ctx.spec("layout.json"), scope=lambda cls, stem: cls in REASSEMBLY_READS and stem in REASSEMBLY_READS[cls])
    n = 0
    for o in obs:
        if o.cls in REASSEMBLY_READS and o.tag == "position" and any(o.key.startswith("%s::get%s" % (o.cls, st)) for st in REASSEMBLY_READS[o.cls]):
            res.check(o.ok, rid, "wire-read:" + o.key.replace("ASAM::CMP::", ""), o.loc, o.detail)
            n += 1
    accessors.require_supported(ast)
    if n < 7:
        raise Broken("reassembly: header getter obligations not found (%d)" % n)
    return n


def rule_output_sources(res, rid, m):
    """C18-R6: packets pushed to the result are built from the current buffer or from
    the current key's entry only."""
    n = 0
    for p in m.body_paths():
        for pb in p.calls("std::vector::push_back", "std::vector::emplace_back"):
            n += 1
            last = paths.path_value(p, pb["args"][0], before=pb["id"])
            ok = False
            why = "the pushed value is not built on this path"
            if last is not None:
                names = facts.called_names(last)
                cons = [c for c in constructions(m.fb, p) if any(x.get("id") == c.site["id"] for x in walk(last))]
                if cons:
                    d = reads(last)
                    ok = m.table not in d and not any("Decoder" in (prm["t"].get("s") or "") for prm in cons[0].fn.params if cons[0].bind)
                    why = "packet built by make_shared from the current cursor" + (" (in %s)" % cons[0].fn.name.split("::")[-1] if cons[0].bind else "")
                    if not ok:
                        why = "the packet construction reads the reassembly table"
                elif SEG + "::getPacket" in names:
                    ok = True
                    why = "packet taken from the current key's entry"
            res.check(ok, rid, "push:%s" % (classify(p) or "?"), pb.get("loc"), why, "pushed packet: " + why)
    return n


def _linear(fn, e, syms, depth=4):
    """Linear form {sym: coeff, 1: const} of integer expression e over the symbols
    recognised by syms(node) -> name|None; None when not linear."""
    e = strip_all_casts(e)
    c = const_value(e)
    if c is not None:
        return {1: c}
    s = syms(e)
    if s:
        return {s: 1, 1: 0}
    if e.get("k") == "ref" and e.get("dk") == "local" and depth > 0:
        ds = facts.local_defs(fn).get(e["decl"], [])
        if len(ds) == 1:
            return _linear(fn, ds[0], syms, depth - 1)
        return None
    if e.get("k") == "call" and depth > 0:
        y = facts.inline_accessor(getattr(fn, "fb", None), e)  # a one-line accessor stands for its expression
        if y is not None:
            return _linear(fn, y, syms, depth - 1)
    if e.get("k") == "bin" and e.get("op") in ("+", "-"):
        a, b = _linear(fn, e["l"], syms, depth), _linear(fn, e["r"], syms, depth)
        if a is None or b is None:
            return None
        out = dict(a)
        for k, v in b.items():
            out[k] = out.get(k, 0) + (v if e["op"] == "+" else -v)
        return out
    if e.get("k") == "bin" and e.get("op") == "*":
        for x, y in ((e["l"], e["r"]), (e["r"], e["l"])):
            c = const_value(x)
            if c is None:
                f = _linear(fn, x, syms, depth)
                c = f.get(1) if f is not None and set(f) == {1} else None
            if c is not None:
                b = _linear(fn, y, syms, depth)
                return None if b is None else {k: v * c for k, v in b.items()}
    return None


def bound_fact(fn, atom, ndecl):
    """Normalise a comparison atom to `K + C*v <= n` (n = the size parameter ndecl, v = one local that
    the function modifies, K, C >= 0 constants): returns (K, C, v decl) or None.  Understands linear
    comparisons (`n - v >= T`, `v + T <= n`) and counted loops `v < (n - A) / S` (floor division:
    v < floor((n-A)/S)  <=>  A + S*v + S <= n, given n >= A)."""
    if atom[0] != "cmp":
        return None
    defs = facts.local_defs(fn)

    def syms(x):
        if x.get("k") == "ref":
            if x.get("decl") == ndecl:
                return "n"
            if x.get("dk") == "local" and len(defs.get(x["decl"], [])) != 1:
                return x["decl"]
        return None
    _, _, op, _, ln, rn = atom
    # counted form: v < E / S
    for a, b, o in ((ln, rn, op), (rn, ln, facts._flip_op(op))):
        if o != "<":
            continue
        v = strip_all_casts(a)
        q = strip_all_casts(facts.expand(fn, b))
        if v.get("k") == "ref" and syms(v) not in (None, "n") and q.get("k") == "bin" and q.get("op") == "/":
            S = const_value(q["r"])
            if S is None:
                fS = _linear(fn, q["r"], syms)
                S = fS.get(1) if fS is not None and set(fS) == {1} else None
            E = _linear(fn, q["l"], syms)
            if S and S > 0 and E is not None and E.get("n") == 1 and set(E) <= {"n", 1} and E.get(1, 0) <= 0:
                return (-E.get(1, 0) + S, S, v["decl"])
    l, r = _linear(fn, ln, syms), _linear(fn, rn, syms)
    if l is None or r is None:
        return None
    d = dict(l)
    for k, v in r.items():
        d[k] = d.get(k, 0) - v
    if op in ("<=", "<"):
        d = {k: -v for k, v in d.items()}
    elif op not in (">=", ">"):
        return None
    if op in (">", "<"):
        d[1] = d.get(1, 0) - 1
    # d >= 0 with d = n - C*v - K
    vs = [k for k in d if k not in ("n", 1) and d[k] != 0]
    if d.get("n") != 1 or len(vs) != 1 or d[vs[0]] >= 0 or d.get(1, 0) > 0:
        return None
    return (-d.get(1, 0), -d[vs[0]], vs[0])


def rule_reject_reasons(res, rid, m):
    """C05-R7: closed world of rejections — every `return false` of addSegment is decided
    by a protocol reason (version / message type / counter mismatch, declared length
    exceeding the frame, invalid segment-type transition) or by a size limit that can
    only reject messages whose reassembled payload exceeds 65535 bytes."""
    f = m.addSegment
    role = getattr(m, "roles", None)
    if role is None:
        raise Broken("rule_accept_guard must run first")
    params = {p["decl"] for p in f.params}
    sizep = [p["decl"] for p in f.params if p["t"]["s"] in ("const unsigned long", "unsigned long")]
    GPL = MH + "::getPayloadLength"
    n = 0
    seen = set()

    def reason_of(a):
        key = None
        why = None
        if a[0] == "cmp":
            dl, cl = depends(f, facts.inline_accessors(m.fb, a[4]))
            dr, cr = depends(f, facts.inline_accessors(m.fb, a[5]))
            for what in ("version", "message type", "counter"):
                fld = role[what]
                if a[2] == "!=" and ((fld in dl and dr & params) or (fld in dr and dl & params)):
                    key = "reject:%s-mismatch" % what.replace(" ", "-")
            if key is None and ((GPL in cl and set(sizep) & dr) or (GPL in cr and set(sizep) & dl)) and m.buffer not in (dl | dr):
                key = "reject:length-exceeds-frame"
                # exactly the protocol's reason: rejected only when header + declared payload do not fit, `size - length < 16`
                hdr0 = m.fb.record(MH)["size"]

                def syms0(x):
                    if x.get("k") == "call" and callee_name(x) == GPL:
                        return "L"
                    if x.get("k") == "ref" and x.get("decl") in sizep:
                        return "n"
                    return None
                L0, R0 = _linear(f, facts.inline_accessors(m.fb, a[4]), syms0), _linear(f, facts.inline_accessors(m.fb, a[5]), syms0)
                if L0 is not None and R0 is not None and a[2] in ("<", "<=", ">", ">="):
                    d0 = dict(L0)
                    for k2, v2 in R0.items():
                        d0[k2] = d0.get(k2, 0) - v2
                    op0 = a[2]
                    if d0.get("n", 0) < 0:  # bring to the form  n - L + c  op  0
                        d0 = {k2: -v2 for k2, v2 in d0.items()}
                        op0 = {"<": ">", "<=": ">=", ">": "<", ">=": "<="}[op0]
                    if d0.get("n") == 1 and d0.get("L") == -1 and set(d0) <= {"n", "L", 1} and op0 in ("<", "<="):
                        # rejects when n - L < K
                        K0 = -d0.get(1, 0) + (1 if op0 == "<=" else 0)
                        if K0 > hdr0:
                            why = "a continuation is rejected when `size - declared length < %d`: a segment whose header and payload fill the rest of the " \
                                  "frame exactly (size - length = %d) is legal and is dropped" % (K0, hdr0)
            if key is None and m.buffer in (dl | dr):
                # a limit on the reassembled size: linear form over buffer size and new payload length
                def syms(x):
                    if x.get("k") == "call" and (x.get("callee") or {}).get("nm") == "size" and strip_all_casts(x.get("obj", {})).get("field") == m.buffer:
                        return "buf"
                    if x.get("k") == "call" and callee_name(x) == GPL:
                        return "new"
                    return None
                L, R = _linear(f, a[4], syms), _linear(f, a[5], syms)
                if L is not None and R is not None:
                    form = dict(L)
                    for k2, v in R.items():
                        form[k2] = form.get(k2, 0) - v
                    op = a[2]
                    if op in ("<", "<="):
                        form = {k2: -v for k2, v in form.items()}
                        op = {"<": ">", "<=": ">="}[op]
                    # rejects when buf*a + new*b + c > 0 (or >= 0)
                    hdr = m.fb.record(MH)["size"]
                    if form.get("buf", 0) == 1 and form.get("new", 0) == 1 and op in (">", ">="):
                        c = form.get(1, 0)
                        # largest legal value of buf + new: header + 65535
                        legal_max = hdr + 65535
                        rejects_legal = (legal_max + c > 0) if op == ">" else (legal_max + c >= 0)
                        key = "reject:size-limit"
                        if rejects_legal:
                            first_rejected = (-c + 1) if op == ">" else -c
                            why = "the size limit rejects a continuation as soon as header + payload reaches %d bytes, i.e. reassembled payloads of %d..65535 " \
                                  "bytes (legal: the length field is 16 bits) are dropped" % (first_rejected, first_rejected - hdr)
        elif a[0] == "truth" and a[3].get("k") == "call" and callee_name(a[3]) == SEG + "::isValidSegmentType" and a[2] is False:
            key = "reject:invalid-transition"
        if key is None:
            # a restatement of what every caller has established already (the message validator accepted (data, size): data is not null and
            # size >= 16): such a test can never reject anything
            pre = None
            hdr1 = m.fb.record(MH)["size"]
            datap = f.params[0]["decl"] if f.params and f.params[0]["t"].get("k") == "ptr" else None
            if a[0] == "cmp":
                for x, y, op in ((a[4], a[5], a[2]), (a[5], a[4], facts._flip_op(a[2]))):
                    xs = strip_all_casts(facts.expand(f, x))
                    cy = const_value(strip_all_casts(facts.expand(f, y)))
                    if xs.get("k") == "ref" and xs.get("decl") in sizep and cy is not None and \
                            ((op == "<" and cy <= hdr1) or (op == "<=" and cy < hdr1) or (op == "==" and cy < hdr1)):
                        pre = "size"
                    if xs.get("k") == "ref" and xs.get("decl") == datap and op == "==" and (strip_all_casts(y).get("null") or cy == 0):
                        pre = "data"
            elif a[0] == "truth" and a[2] is False and strip_all_casts(facts.expand(f, a[3])).get("decl") == datap and datap:
                pre = "data"
            if pre is not None:
                sites = [(h, c) for h in m.fb.all_functions() if h.cfg_raw for c in h.calls() if m.fb.resolve_call(c) is f]
                established = bool(sites)
                for h, c in sites:
                    c = facts.effective_call(c)
                    args = c.get("args", [])
                    want = "ASAM::CMP::Packet::isValidPacket(%s, %s)" % (canon(strip_all_casts(args[0])), canon(strip_all_casts(args[1]))) if len(args) >= 2 else None
                    if not any(b[0] == "truth" and b[2] is True and b[1] == want for b in MustFacts(h).at(c)):
                        established = False
                key = "reject:restates-precondition:%s" % pre
                if not established:
                    why = "addSegment rejects when `%s`, which not every caller has excluded: messages can be dropped for a non-protocol reason" % a[1][:60]
        return key, why

    for p in paths.enumerate_paths(f):
        r = p.returns()
        if r is None or const_value(p.value_of(r["e"], before=r["id"])) != 0:
            continue
        if not p.atoms:
            res.bad(rid, "reject:unconditional", r.get("loc"), "addSegment rejects unconditionally")
            continue
        # (the result local of an inlined helper says nothing by itself: the reason is the test inside the helper that gave it its value)
        own = [b for b in p.atoms if not (b[0] == "truth" and strip_all_casts(b[3]).get("inlined_from"))]
        a = own[-1] if own else p.atoms[-1]
        key, why = reason_of(a)
        if key is None and a[0] == "truth" and a[2] is False:
            # rejected because a conjunction of conditions failed (`const bool ok = A && B && C; if (!ok) return false;`):
            # the rejection is by a protocol reason when every conjunct, negated, is one
            cj = facts.conjuncts(a[3], True, f)
            # a bool local appears as itself and as its expansion: keep the expansion
            named = [c for c in cj if c[0] == "truth" and strip_all_casts(c[3]).get("k") == "ref" and strip_all_casts(c[3]).get("dk") == "local" and
                     len(facts.local_defs(f).get(strip_all_casts(c[3])["decl"], [])) == 1]
            if len(named) < len(cj):
                cj = [c for c in cj if c not in named]
            if len(cj) > 1 or (len(cj) == 1 and cj[0][:3] != a[:2] + (True,)):
                subs = []
                for c in cj:
                    neg = ("cmp", c[1], facts._neg_op(c[2]), c[3], c[4], c[5]) if c[0] == "cmp" else ("truth", c[1], not c[2], c[3])
                    subs.append(reason_of(neg))
                if subs and all(k3 is not None for k3, _ in subs):
                    n += 1
                    for k3, w3 in subs:
                        if k3 not in seen:
                            seen.add(k3)
                            res.check(w3 is None, rid, k3, r.get("loc"), "rejection decided by a protocol reason (one conjunct of the accept condition)", w3 or "")
                    continue
        n += 1
        if key is None:
            k2 = "reject:unknown:%s" % (a[1][:50] if len(a) > 1 else "?")
            if k2 not in seen:
                seen.add(k2)
                res.bad(rid, k2, r.get("loc"), "addSegment rejects a continuation when `%s %s %s`, which is none of the protocol's reasons (version, message type, "
                        "counter, declared length vs frame, segment-type transition): well-formed messages can be dropped" %
                        ((a[1], a[2], a[3]) if a[0] == "cmp" else (a[1], "is", a[2])))
        elif key not in seen:
            seen.add(key)
            res.check(why is None, rid, key, r.get("loc"), "rejection decided by a protocol reason", why or "")
    return n
