#!/usr/bin/env python3
import sys, os
sys.path.insert(0, os.path.join(os.path.dirname(os.path.abspath(__file__)), "..", "lib"))
from cmpverif import facts
fb = facts.load(os.environ.get("ROOT", "/repo"))
for f in fb.fns(sys.argv[1]):
    if f.raw.get("templated"): continue
    print("==", f.name, f.loc, [p["decl"] for p in f.params])
    cfg = f.cfg
    top = set()
    for bid in sorted(cfg.blocks, reverse=True):
        b = cfg.blocks[bid]
        print("B%d%s succ=%s %s %s" % (bid, " (entry)" if bid == cfg.entry else " (exit)" if bid == cfg.exit else "", cfg.succ[bid], b.get("tk", ""), ("case %s" % b["case"]) if "case" in b else ("default" if b.get("default") else "")))
        els = [e for e in b.get("el", []) if e >= 0]
        # show only elements that are not sub-expressions of later elements in the block
        sub = set()
        for e in els:
            n = f.node(e)
            for d in facts.walk(n):
                if d["id"] != e: sub.add(d["id"])
        for e in els:
            if e in sub: continue
            n = f.node(e)
            print("    [%d] %s   @%s" % (e, facts.canon(n) if n.get("k") != "decl" else "decl " + ", ".join("%s = %s" % (v.get("decl"), facts.canon(v.get("init"))) for v in n["vars"]), n.get("loc", "").split(":", 1)[-1]))
        if "cond" in b:
            leaf = cfg.branch_leaf(bid)
            print("    T: %s" % (facts.canon(leaf) if leaf else "?"))
