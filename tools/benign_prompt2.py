import sys, re
area, files, style = sys.argv[1], sys.argv[2], sys.argv[3]
d = "/tmp/wt/ben2_%s" % area
done = "\n".join("   - " + re.sub(r"^## r\d+ - ", "", l.strip()) for l in open("/verif/benign/%s/notes.md" % area) if l.startswith("## r"))
print(f"""You are helping evaluate a code-analysis framework for false alarms. You have your own scratch git worktree of openDAQ/ASAM-CMP-Library (a static C++17 library that encodes/decodes ASAM CMP and TECMP automotive capture messages) at {d}. Work ONLY inside {d}. Never modify /repo, and do not read or use anything under /verif.

Your task: produce SIX independent, BEHAVIOUR-PRESERVING changes to the library code in this area: {files} Each change must leave the observable behaviour of the public API exactly unchanged for ALL inputs (not just tested ones) — same results, same bytes written and read, same memory-safety, same object state — while changing the SHAPE of the code. The motivation a maintainer would have for this batch: {style}

An earlier batch by someone else already covered these — do something DIFFERENT in kind and, where possible, in location:
{done}

Make the changes NON-trivial (not whitespace, comments or pure renames) and varied in kind; each should touch 3-40 lines and may span a .cpp and its header (private parts only; keep the public API and the data members of public classes as they are unless the change is private-only). They must be truly equivalent: think carefully about integer widths and promotions, signedness, evaluation order, aliasing, iterator/pointer invalidation, empty inputs and boundary values — if in doubt, choose another change.

For EACH change k = 1..6:
  1. start from a clean tree (`git -C {d} checkout -- .`),
  2. apply your edit (the source files mostly use CRLF line endings — preserve them; edit with a small python script doing a bytes replace, and check `git -C {d} diff --stat` shows only the intended lines),
  3. build and run the test suite: `cmake -S {d} -B {d}/_build -G Ninja >/dev/null && cmake --build {d}/_build -j4 2>&1 | tail -3 && {d}/_build/bin/test_asam_cmp | tail -3` — all 293 tests must pass (the build uses -Werror),
  4. save it: `mkdir -p {d}/benign && git -C {d} diff -- src include > {d}/benign/r$k.diff`, and append to {d}/benign/notes.md a paragraph headed `## r$k - <function>: <kind of change>` saying what r$k changes and why it is behaviour-preserving for all inputs.
Never use `git stash` (the stash is shared with sibling worktrees). Finish with a clean tree (`git checkout -- .`) and the six diffs r1.diff..r6.diff plus notes.md in {d}/benign/.

Your final answer: one line per change (file/function and kind of change).""")
