import sys
pid=sys.argv[1]
d="/tmp/wt/%s"%pid
prop=open("/tmp/wt/prop_%s.txt"%pid).read()
print(f"""You are helping evaluate a verification framework by producing ONE realistic *seeded defect* in a C++ library. You have your own scratch git worktree of openDAQ/ASAM-CMP-Library (a static C++17 library that encodes/decodes ASAM CMP and TECMP automotive capture messages) at {d}. Work ONLY inside {d}. Never modify /repo, and do not read or use anything under /verif (the framework under evaluation must stay unknown to you).

The property your change must break:

{prop}

Your task: make a small change to the library sources ({d}/src/*.cpp or {d}/include/asam_cmp/*.h) that BREAKS this property, such that
 (1) the library and its test suite still compile;
 (2) ALL existing tests still pass. Build: `cmake -S {d} -B {d}/_build -G Ninja && cmake --build {d}/_build -j4` ; run: `{d}/_build/bin/test_asam_cmp` (GTest is installed system-wide; there is no network). Check the baseline passes first (293 tests).
 (3) the breakage needs something specific to manifest — a particular interleaving or multi-step sequence of operations, an unusual input or boundary value, a specific history on one object, or two cooperating sites that each look fine alone. It must NOT be something ordinary use would expose at once.
 (4) it looks like a plausible maintenance edit (a refactoring, an optimisation, a 'simplification', a well-meant robustness tweak), not sabotage with obviously odd code. Keep it small (typically 1-15 changed lines). Do not add comments that announce the defect. Do not touch tests/.

Also write a demonstration: a small standalone program {d}/seed/demo.cpp (compile e.g. `g++ -std=c++17 -I{d}/include {d}/seed/demo.cpp {d}/src/*.cpp -o {d}/seed/demo`) that exits 0 on the ORIGINAL code and exits non-zero, printing what went wrong, WITH your change. The demo must exercise the property through the library's public API.

Deliver in {d}/seed/ :
  - patch.diff : `git -C {d} diff -- src include > {d}/seed/patch.diff` (library sources only, relative to HEAD)
  - demo.cpp
  - notes.md : what the change is, why it breaks the property, what exactly is needed for it to manifest, and the commands you ran with their results, confirming: (a) all tests pass with the change, (b) the demo exits 0 without the change (NEVER use `git stash` — the stash is shared between worktrees and other agents are working in sibling worktrees; instead save your change with `git diff > seed/patch.diff`, revert it with `git apply -R seed/patch.diff`, and re-apply it with `git apply seed/patch.diff`), (c) the demo exits non-zero with the change.

IMPORTANT practical notes: most source files use CRLF line endings — preserve them. Edit minimally (e.g. with a small python script doing a bytes replace, or sed), and verify with `git -C {d} diff --stat` that only the lines you intended changed (a whole-file diff means you converted line endings: undo and redo). Leave the worktree with your change applied and the seed/ directory filled. The remaining source is already at the library's current state; the code may contain earlier bug fixes — do not simply revert an existing fix commit (check `git log --oneline`); invent a new change.

Your final answer: a summary of at most 8 lines (file/function changed, what manifests it, test and demo results).""")
