import sys, re, os, subprocess
area, files, style = sys.argv[1], sys.argv[2], sys.argv[3]
done = ""
for rd in ("benign", "benign2", "benign3", "benign4", "benign5", "benign6"):
    f = "/verif/%s/%s/notes.md" % (rd, area)
    if os.path.exists(f):
        done += "\n".join("   - " + re.sub(r"^## r\d+\s*[-–]\s*", "", l.strip()) for l in open(f) if l.startswith("## r")) + "\n"
open("/tmp/wt/done7_%s.txt" % area, "w").write(done)
base = open("/verif/tools/benign_prompt2.py").read()
src = base.replace('d = "/tmp/wt/ben2_%s" % area', 'd = "/tmp/wt/ben7_%s" % area').replace(
    'done = "\\n".join("   - " + re.sub(r"^## r\\d+ - ", "", l.strip()) for l in open("/verif/benign/%s/notes.md" % area) if l.startswith("## r"))',
    'done = open("/tmp/wt/done7_%s.txt" % area).read()')
out = subprocess.run([sys.executable, "-c", src, area, files, style], capture_output=True, text=True)
sys.stdout.write(out.stdout); sys.stderr.write(out.stderr)
