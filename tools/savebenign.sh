#!/bin/sh
# tools/savebenign.sh <set dir under /verif (benign|benign2)/area> <rN> "<what>" PROP...: register a sub-agent refactoring as a benign self-test case
set_=$1; r=$2; what=$3; shift 3
tag=$(echo $set_ | tr '/' '-')
for p in "$@"; do cp /verif/$set_/$r.diff /verif/selftest/$p/b-agent-$tag-$r.patch; printf '{"expect": "silent", "what": "sub-agent refactoring: %s"}\n' "$what" > /verif/selftest/$p/b-agent-$tag-$r.json; done
