#!/bin/sh
# tools/savebenign.sh <set> <rN> "<what>" PROP...: register a sub-agent refactoring as a benign self-test case
set_=$1; r=$2; what=$3; shift 3
for p in "$@"; do cp /verif/benign/$set_/$r.diff /verif/selftest/$p/b-agent-$set_-$r.patch; printf '{"expect": "silent", "what": "sub-agent refactoring: %s"}\n' "$what" > /verif/selftest/$p/b-agent-$set_-$r.json; done
