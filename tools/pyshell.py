"""python3 -i helper: from tools.pyshell import *; fb = load('/tmp/sc/x')"""
import sys
sys.path.insert(0, '/verif/lib'); sys.path.insert(0, '/verif')
from cmpverif import build, facts, paths
from cmpverif.driver import Ctx
from cmpverif.facts import *


def load(root='/repo'):
    return Ctx('C00', root, 'quick', 0).fb()
