#!/usr/bin/env python3
"""Regenerates /verif/MANIFEST.json from /verif/manifest_src.json (claims) so the
file stays schema-valid; run after editing manifest_src.json."""
import json, os, sys
HERE = os.path.dirname(os.path.dirname(os.path.abspath(__file__)))
src = json.load(open(os.path.join(HERE, "manifest_src.json")))
props = [json.loads(l)["id"] for l in open(os.path.join(HERE, "properties.jsonl"))]
checks = []
for pid in props:
    c = src["claims"].get(pid)
    if not c:
        continue
    checks.append({
        "property_id": pid,
        "quick_cmd": "./check %s --tier quick" % pid,
        "thorough_cmd": "./check %s --tier thorough" % pid,
        "evidence_file": "/verif/evidence/%s.json" % pid,
        "replay_cmd_template": "./check %s --replay {path}" % pid,
        "engine": "cmpfacts+rules",
        "level_claimed": {"category": c["category"], "text": c["text"], "design_ref": c.get("design_ref", "DESIGN.md §4 " + pid)},
        "level_note": c["note"],
        "technique": c["technique"],
    })
na = [{"property_id": p, "reason": src["not_applicable"][p]} for p in props if p in src["not_applicable"] and p not in src["claims"]]
missing = [p for p in props if p not in src["claims"] and p not in src["not_applicable"]]
if missing:
    sys.exit("properties neither claimed nor declined: %s" % missing)
m = {
    "version": 1,
    "setup_cmd": "make -C /verif",
    "hooks": src["hooks"],
    "engines": src["engines"],
    "checks": checks,
    "notes": src["notes"],
    "not_applicable": na,
}
json.dump(m, open(os.path.join(HERE, "MANIFEST.json"), "w"), indent=1)
try:
    import jsonschema
    jsonschema.validate(m, json.load(open("/root/.vp/MANIFEST.schema.json")))
    print("MANIFEST.json valid: %d checks, %d not_applicable" % (len(checks), len(na)))
except ImportError:
    print("MANIFEST.json written (jsonschema not available to validate)")
