#!/usr/bin/env python3
"""tools/recheck_fast.py [name ...]: re-run every registered check against every stored seed (all of /verif/seeded by default),
each on its own scratch copy of /repo HEAD with the seed's patch applied (./check <P> --root <copy>), several seeds at a time,
and refresh caught_by / analysis_broken / caught_by_target_property_check in the seed's meta.json.  /repo itself is not touched
(the first vetting of a seed, tools/vet_seed.py, is the run that applies the patch to /repo)."""
import json, os, shutil, subprocess, sys, tempfile
from concurrent.futures import ThreadPoolExecutor
HERE = os.path.dirname(os.path.abspath(__file__))
VERIF = os.path.dirname(HERE)
sys.path.insert(0, os.path.join(VERIF, "lib"))
from cmpverif import build, selftest
props = [c["property_id"] for c in json.load(open(os.path.join(VERIF, "MANIFEST.json")))["checks"]]
head = subprocess.run("git -C %s rev-parse --short HEAD" % VERIF, shell=True, stdout=subprocess.PIPE, text=True).stdout.strip()


def one_seed(name):
    dst = os.path.join(VERIF, "seeded", name)
    meta = json.load(open(os.path.join(dst, "meta.json")))
    d = tempfile.mkdtemp(prefix="rs-", dir=build._scratch_base())
    try:
        subprocess.run("git -C /repo archive HEAD src include external CMakeLists.txt | tar -x -C %s" % d, shell=True, check=True)
        ok, out = selftest.apply_patch(d, os.path.join(dst, "patch.diff"))
        if not ok:
            return name, None, "patch does not apply: " + out[:200]

        def one(p):
            r = subprocess.run([os.path.join(VERIF, "check"), p, "--root", d], stdout=subprocess.PIPE, stderr=subprocess.STDOUT, text=True)
            return p, r.returncode, [l.strip() for l in r.stdout.splitlines() if l.startswith("  at ")][:6]
        res = [one(props[0])]  # the first run exports the facts, the others reuse them
        with ThreadPoolExecutor(max_workers=5) as ex:
            res += list(ex.map(one, props[1:]))
    finally:
        shutil.rmtree(d, ignore_errors=True)
    caught = sorted(p for p, rc, _ in res if rc == 1)
    broken = sorted(p for p, rc, _ in res if rc == 2)
    meta["checks_run"] = "every check of MANIFEST.json (quick tier, ./check <P> --root <scratch copy of /repo HEAD + patch.diff>) at /verif commit %s" % head
    meta["caught_by"] = {p: w for p, rc, w in res if rc == 1}
    meta["analysis_broken"] = broken
    meta["caught_by_target_property_check"] = meta["property"] in caught
    json.dump(meta, open(os.path.join(dst, "meta.json"), "w"), indent=1)
    return name, meta["property"] in caught, "caught by %s | broken %s" % (caught, broken)


names = sys.argv[1:] or sorted(os.listdir(os.path.join(VERIF, "seeded")))
bad = 0
with ThreadPoolExecutor(max_workers=3) as ex:
    for name, tgt, text in ex.map(one_seed, names):
        flag = "" if tgt else "   <<<<<< TARGET NOT CAUGHT"
        if not tgt:
            bad += 1
        print("%-50s %s%s" % (name, text, flag), flush=True)
print("seeds: %d, target not caught: %d" % (len(names), bad))
