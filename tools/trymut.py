#!/usr/bin/env python3
"""tools/trymut.py <PROP[,PROP]> <relfile> <old> <new> [<relfile> <old> <new> ...]
Scratch-copy /repo, replace text (binary-safe, must occur exactly once), run the
check(s) with --root, delete the scratch copy.  With --save NAME --expect RULE[:key]
the diff is stored as a self-test mutant under /verif/selftest/<PROP>/NAME.patch."""
import os, shutil, subprocess, sys, json
sys.path.insert(0, os.path.join(os.path.dirname(os.path.abspath(__file__)), "..", "lib"))
from cmpverif import selftest
args = sys.argv[1:]
save = expect = None
benign = False
while args and args[0].startswith("--"):
    if args[0] == "--save": save = args[1]; args = args[2:]
    elif args[0] == "--expect": expect = args[1]; args = args[2:]
    elif args[0] == "--benign": benign = True; args = args[1:]
    else: sys.exit("bad option")
props = args[0].split(","); edits = args[1:]
root = os.environ.get("MUT_ROOT", "/repo")
d = selftest.make_scratch(root)
orig = selftest.make_scratch(root)
try:
    for i in range(0, len(edits), 3):
        f, old, new = edits[i:i+3]
        p = os.path.join(d, f)
        s = open(p, "rb").read()
        o = old.encode().decode("unicode_escape").encode(); n = new.encode().decode("unicode_escape").encode()
        if s.count(o) != 1:
            o2 = o.replace(b"\n", b"\r\n"); n2 = n.replace(b"\n", b"\r\n")
            if s.count(o2) == 1: o, n = o2, n2
            else: sys.exit("pattern occurs %d times in %s" % (s.count(o), f))
        open(p, "wb").write(s.replace(o, n))
    r = subprocess.run(["clang++", "-std=c++17", "-fsyntax-only", "-I" + d + "/include"] + [os.path.join(d, "src", x) for x in sorted(os.listdir(d + "/src")) if x.endswith(".cpp")], stdout=subprocess.PIPE, stderr=subprocess.STDOUT, text=True)
    print("compiles:", r.returncode == 0, r.stdout[-500:] if r.returncode else "")
    for p in props:
        r = subprocess.run([os.path.join(os.path.dirname(os.path.abspath(__file__)), "..", "check"), p, "--root", d], stdout=subprocess.PIPE, stderr=subprocess.STDOUT, text=True)
        lines = r.stdout.splitlines()
        print("\n".join(l for l in lines if l.startswith(("VIOLATION", "  at", "  set", "ANALYSIS", "KNOWN")) or l.startswith(p + ":") or l.startswith("   ") )[:3000])
        print("exit", r.returncode)
    if save:
        diff = subprocess.run(["diff", "-ruN", "--label", "a", "--label", "b", orig, d], stdout=subprocess.PIPE).stdout
        # rewrite paths to a/ b/ relative
        diff = subprocess.run(["git", "diff", "--no-index", "--no-prefix", orig, d], stdout=subprocess.PIPE).stdout
        diff = diff.replace(orig.encode()[1:] + b"/", b"a/").replace(d.encode()[1:] + b"/", b"b/")
        for p in props:
            os.makedirs(os.path.join(selftest.ST_DIR, p), exist_ok=True)
            open(os.path.join(selftest.ST_DIR, p, save + ".patch"), "wb").write(diff)
            meta = {"expect": "silent"} if benign else {"expect": "violation", "rule": (expect or "").split(":")[0], "key_contains": (expect or ":").split(":", 1)[1] if ":" in (expect or "") else ""}
            meta["what"] = " ; ".join("%s: %s -> %s" % tuple(edits[i:i+3]) for i in range(0, len(edits), 3))[:400]
            json.dump(meta, open(os.path.join(selftest.ST_DIR, p, save + ".json"), "w"), indent=1)
        print("saved", save)
finally:
    shutil.rmtree(d, ignore_errors=True); shutil.rmtree(orig, ignore_errors=True)
