#!/usr/bin/env python3
"""tools/save_revfix.py <commit> <name> <PROP:RULE:key_contains> [<PROP:RULE:key> ...]
Stores the reverse of a fix: commit as a self-test mutant for the given properties."""
import json, os, subprocess, sys
commit, name = sys.argv[1], sys.argv[2]
diff = subprocess.run(["git", "-C", "/repo", "diff", commit, commit + "~1"], stdout=subprocess.PIPE).stdout
subj = subprocess.run(["git", "-C", "/repo", "log", "-1", "--format=%s", commit], stdout=subprocess.PIPE, text=True).stdout.strip()
for spec in sys.argv[3:]:
    prop, rule, key = (spec.split(":", 2) + [""])[:3]
    d = os.path.join(os.path.dirname(os.path.abspath(__file__)), "..", "selftest", prop)
    os.makedirs(d, exist_ok=True)
    open(os.path.join(d, name + ".patch"), "wb").write(diff)
    json.dump({"expect": "violation", "rule": rule, "key_contains": key, "what": "reverse of %s (%s)" % (commit, subj)},
              open(os.path.join(d, name + ".json"), "w"), indent=1)
    print("saved", prop, name)
