#!/usr/bin/env python3
"""tools/check_patch.py <patch.diff> [...]: apply each patch to a scratch copy of /repo, run
every registered check with --root in parallel, print the checks that do not exit 0."""
import json, os, shutil, subprocess, sys
from concurrent.futures import ThreadPoolExecutor
HERE = os.path.dirname(os.path.abspath(__file__))
sys.path.insert(0, os.path.join(HERE, "..", "lib"))
from cmpverif import selftest
props = [c["property_id"] for c in json.load(open(os.path.join(HERE, "..", "MANIFEST.json")))["checks"]]
total = 0
for patch in sys.argv[1:]:
    # scratch copy of the committed HEAD (not of the working tree: another tool may have a seeded patch applied there for a moment)
    import tempfile
    from cmpverif import build
    d = tempfile.mkdtemp(prefix="cp-", dir=build._scratch_base())
    subprocess.run("git -C /repo archive HEAD src include external CMakeLists.txt | tar -x -C %s" % d, shell=True, check=True)
    try:
        ok, out = selftest.apply_patch(d, os.path.abspath(patch))
        if not ok:
            print("%-40s PATCH DOES NOT APPLY: %s" % (patch[-40:], out.strip()[:150])); continue
        def one(p):
            r = subprocess.run([os.path.join(HERE, "..", "check"), p, "--root", d], stdout=subprocess.PIPE, stderr=subprocess.STDOUT, text=True)
            return p, r.returncode, r.stdout
        res = [one(props[0])]
        with ThreadPoolExecutor(max_workers=8) as ex:
            res += list(ex.map(one, props[1:]))
        issues = [(p, rc, o) for p, rc, o in res if rc != 0]
        if not issues:
            print("%-40s ok" % patch[-40:])
        for p, rc, o in issues:
            total += 1
            lines = [l.strip() for l in o.splitlines() if l.startswith(("  at", "ANALYSIS")) or (l.startswith("  ") and not l.startswith("  rule"))]
            print("%-40s %s exit %d: %s" % (patch[-40:], p, rc, " | ".join(x[:220] for x in lines[:3])))
    finally:
        shutil.rmtree(d, ignore_errors=True)
print("issues:", total)
