// cmpfacts — E1 of /verif/DESIGN.md: a generic libTooling exporter (clang 14).
//
// For one translation unit it writes a JSON fact file with
//   * records (layout, fields, initialisers, constructors, methods, special members),
//   * enums, variables with static storage duration,
//   * every function that has a body under the analysed root: a resolved AST
//     (every DeclRefExpr / MemberExpr / call resolved to a declaration) plus the
//     clang CFG (blocks, elements as AST node ids, terminators, successors).
// It contains no property logic; rules live in /verif/rules/*.py.
//
// usage: cmpfacts --root=/repo --out=<file.json> <source> -- <compile flags>

#include "clang/AST/ASTConsumer.h"
#include "clang/AST/ASTContext.h"
#include "clang/AST/Attr.h"
#include "clang/AST/DeclCXX.h"
#include "clang/AST/DeclTemplate.h"
#include "clang/AST/ExprCXX.h"
#include "clang/AST/Mangle.h"
#include "clang/AST/RecordLayout.h"
#include "clang/AST/RecursiveASTVisitor.h"
#include "clang/AST/StmtCXX.h"
#include "clang/Analysis/CFG.h"
#include "clang/Frontend/CompilerInstance.h"
#include "clang/Frontend/FrontendAction.h"
#include "clang/Tooling/CommonOptionsParser.h"
#include "clang/Tooling/Tooling.h"
#include "llvm/ADT/DenseMap.h"
#include "llvm/Support/CommandLine.h"
#include "llvm/Support/JSON.h"
#include "llvm/Support/raw_ostream.h"

#include <set>

using namespace clang;
namespace json = llvm::json;

static llvm::cl::OptionCategory Cat("cmpfacts");
static llvm::cl::opt<std::string> OptRoot("root", llvm::cl::desc("analysed source root"), llvm::cl::init("/repo"),
                                          llvm::cl::cat(Cat));
static llvm::cl::opt<std::string> OptOut("out", llvm::cl::desc("output json"), llvm::cl::init("-"), llvm::cl::cat(Cat));

namespace
{

class Exporter
{
public:
    Exporter(ASTContext& C)
        : Ctx(C)
        , SM(C.getSourceManager())
        , NameGen(C)
    {
        PP = PrintingPolicy(C.getLangOpts());
        PP.SuppressTagKeyword = true;
        PP.Bool = true;
        Root = OptRoot;
        if (!Root.empty() && Root.back() != '/')
            Root += '/';
    }

    ASTContext& Ctx;
    SourceManager& SM;
    ASTNameGenerator NameGen;
    PrintingPolicy PP{LangOptions()};
    std::string Root;

    json::Array Records, Enums, Statics, Functions;
    std::set<const Decl*> SeenRecords, SeenEnums, SeenVars, SeenFuncs;

    // ---- per-function state
    llvm::DenseMap<const Stmt*, int> NodeIds;
    llvm::DenseMap<const Decl*, std::string> LocalIds;
    int NextNode = 0;
    int NextLocal = 0;
    const FunctionDecl* CurFn = nullptr;

    // ------------------------------------------------------------------ utils
    std::string fileOf(SourceLocation L) const
    {
        if (L.isInvalid())
            return "";
        L = SM.getExpansionLoc(L);
        auto F = SM.getFilename(L);
        if (F.empty())
            return "";
        llvm::SmallString<256> P(F);
        SM.getFileManager().makeAbsolutePath(P);
        llvm::sys::path::remove_dots(P, true);
        return std::string(P.str());
    }

    bool inRoot(SourceLocation L) const
    {
        auto F = fileOf(L);
        return !F.empty() && llvm::StringRef(F).startswith(Root);
    }

    std::string locStr(SourceLocation L) const
    {
        if (L.isInvalid())
            return "";
        L = SM.getExpansionLoc(L);
        auto F = fileOf(L);
        if (llvm::StringRef(F).startswith(Root))
            F = F.substr(Root.size());
        return F + ":" + std::to_string(SM.getExpansionLineNumber(L)) + ":" + std::to_string(SM.getExpansionColumnNumber(L));
    }

    // qualified name without template arguments and without inline namespaces
    std::string qualName(const NamedDecl* D) const
    {
        if (!D)
            return "";
        std::vector<std::string> Parts;
        std::string Own = D->getNameAsString();
        if (Own.empty())
        {
            if (isa<RecordDecl>(D))
                Own = "(anon-record)";
            else if (isa<EnumDecl>(D))
                Own = "(anon-enum)";
            else
                Own = "(anon)";
        }
        Parts.push_back(Own);
        const DeclContext* DC = D->getDeclContext();
        while (DC && !DC->isTranslationUnit())
        {
            if (auto* NS = dyn_cast<NamespaceDecl>(DC))
            {
                if (!NS->isInline())
                    Parts.push_back(NS->isAnonymousNamespace() ? "(anon-ns)" : NS->getNameAsString());
            }
            else if (auto* RD = dyn_cast<RecordDecl>(DC))
            {
                std::string N = RD->getNameAsString();
                if (N.empty())
                {
                    if (auto* CRD = dyn_cast<CXXRecordDecl>(RD); CRD && CRD->isLambda())
                        N = "(lambda)";
                    else
                        N = "(anon-record)";
                }
                Parts.push_back(N);
            }
            else if (auto* FD = dyn_cast<FunctionDecl>(DC))
            {
                Parts.push_back(FD->getNameAsString() + "()");
            }
            else if (auto* ED = dyn_cast<EnumDecl>(DC))
            {
                if (ED->isScoped())
                    Parts.push_back(ED->getNameAsString().empty() ? "(anon-enum)" : ED->getNameAsString());
            }
            DC = DC->getParent();
        }
        std::string R;
        for (auto It = Parts.rbegin(); It != Parts.rend(); ++It)
        {
            if (!R.empty())
                R += "::";
            R += *It;
        }
        return R;
    }

    std::string mangled(const NamedDecl* D)
    {
        if (!D)
            return "";
        if (auto* FD = dyn_cast<FunctionDecl>(D))
        {
            if (FD->isDependentContext() || FD->isTemplated())
                return "";
        }
        else if (auto* VD = dyn_cast<VarDecl>(D))
        {
            if (VD->isTemplated() || VD->getDeclContext()->isDependentContext())
                return "";
            if (!VD->hasGlobalStorage() || VD->isStaticLocal())
                return "";
        }
        else
            return "";
        std::string N = NameGen.getName(D);
        return N;
    }

    json::Object typeInfo(QualType T)
    {
        json::Object O;
        if (T.isNull())
        {
            O["s"] = "<null>";
            return O;
        }
        QualType C = T.getCanonicalType();
        O["s"] = C.getAsString(PP);
        O["w"] = T.getAsString(PP);
        if (C.isConstQualified())
            O["const"] = true;
        QualType NR = C.getNonReferenceType();
        if (C->isReferenceType())
        {
            O["ref"] = true;
            if (NR.isConstQualified())
                O["const"] = true;
        }
        QualType U = NR.getUnqualifiedType();
        if (U->isDependentType())
        {
            O["k"] = "dependent";
            return O;
        }
        if (U->isBooleanType())
        {
            O["k"] = "bool";
            O["bits"] = 1;
            O["sbits"] = (int64_t) Ctx.getTypeSize(U);
        }
        else if (U->isEnumeralType())
        {
            O["k"] = "enum";
            auto* ED = U->castAs<EnumType>()->getDecl();
            O["enum"] = qualName(ED);
            if (ED->isComplete())
            {
                O["bits"] = (int64_t) Ctx.getTypeSize(U);
                O["sg"] = ED->getIntegerType()->isSignedIntegerType();
            }
        }
        else if (U->isIntegerType())
        {
            O["k"] = "int";
            O["bits"] = (int64_t) Ctx.getTypeSize(U);
            O["sg"] = U->isSignedIntegerType();
        }
        else if (U->isFloatingType())
        {
            O["k"] = "float";
            O["bits"] = (int64_t) Ctx.getTypeSize(U);
        }
        else if (U->isPointerType())
        {
            O["k"] = "ptr";
            QualType P = U->getPointeeType();
            O["pointee"] = P.getUnqualifiedType().getAsString(PP);
            O["pconst"] = P.isConstQualified();
            if (auto* RD = P->getAsCXXRecordDecl())
                O["prec"] = qualName(RD);
            if (!P->isIncompleteType() && !P->isDependentType() && !P->isFunctionType() && !P->isVoidType())
                O["psize"] = (int64_t) Ctx.getTypeSizeInChars(P).getQuantity();
        }
        else if (auto* RD = U->getAsCXXRecordDecl())
        {
            O["k"] = "rec";
            O["rec"] = qualName(RD);
            if (auto* Spec = dyn_cast<ClassTemplateSpecializationDecl>(RD))
            {
                json::Array Args;
                for (auto& A : Spec->getTemplateArgs().asArray())
                {
                    if (A.getKind() == TemplateArgument::Type)
                        Args.push_back(A.getAsType().getCanonicalType().getAsString(PP));
                    else
                        Args.push_back("?");
                }
                O["targs"] = std::move(Args);
            }
        }
        else if (U->isArrayType())
        {
            O["k"] = "array";
            if (auto* CAT = Ctx.getAsConstantArrayType(U))
            {
                O["n"] = (int64_t) CAT->getSize().getZExtValue();
                O["elem"] = CAT->getElementType().getAsString(PP);
            }
        }
        else if (U->isVoidType())
            O["k"] = "void";
        else
            O["k"] = "other";
        return O;
    }

    std::string localId(const Decl* D)
    {
        auto It = LocalIds.find(D);
        if (It != LocalIds.end())
            return It->second;
        std::string Id;
        if (auto* PVD = dyn_cast<ParmVarDecl>(D))
        {
            auto* DC = dyn_cast<FunctionDecl>(PVD->getDeclContext());
            if (DC && DC == CurFn)
                Id = "p" + std::to_string(PVD->getFunctionScopeIndex()) + ":" + PVD->getNameAsString();
            else
                Id = "lp" + std::to_string(NextLocal++) + ":" + PVD->getNameAsString();
        }
        else
        {
            std::string N = "?";
            if (auto* ND = dyn_cast<NamedDecl>(D))
                N = ND->getNameAsString();
            Id = "l" + std::to_string(NextLocal++) + ":" + N;
        }
        LocalIds[D] = Id;
        return Id;
    }

    void addConst(json::Object& O, const Expr* E)
    {
        if (!E || E->isValueDependent() || E->isTypeDependent())
            return;
        if (E->getType().isNull())
            return;
        if (E->getType()->isIntegralOrEnumerationType())
        {
            Expr::EvalResult R;
            if (E->EvaluateAsInt(R, Ctx, Expr::SE_NoSideEffects))
            {
                llvm::APSInt V = R.Val.getInt();
                if (V.isSigned())
                    O["cv"] = (int64_t) V.getExtValue();
                else if (V.getActiveBits() <= 63)
                    O["cv"] = (int64_t) V.getZExtValue();
                else
                    O["cvs"] = llvm::toString(V, 10);
            }
        }
        else if (E->getType()->isFloatingType())
        {
            llvm::APFloat F(0.0);
            if (E->EvaluateAsFloat(F, Ctx, Expr::SE_NoSideEffects))
                O["cvf"] = F.convertToDouble();
        }
    }

    json::Object calleeInfo(const FunctionDecl* FD)
    {
        json::Object O;
        if (!FD)
            return O;
        O["name"] = qualName(FD);
        O["nm"] = FD->getNameAsString();
        std::string M = mangled(FD);
        if (!M.empty())
            O["mangled"] = M;
        O["inrepo"] = inRoot(FD->getLocation());
        O["nparams"] = (int64_t) FD->getNumParams();
        O["ret"] = FD->getReturnType().getCanonicalType().getAsString(PP);
        json::Array PT;
        for (auto* P : FD->parameters())
            PT.push_back(P->getType().getCanonicalType().getAsString(PP));
        O["ptypes"] = std::move(PT);
        if (auto* MD = dyn_cast<CXXMethodDecl>(FD))
        {
            O["rec"] = qualName(MD->getParent());
            O["static"] = MD->isStatic();
            O["virtual"] = MD->isVirtual();
            O["const"] = MD->isConst();
            if (isa<CXXConstructorDecl>(MD))
                O["ctor"] = true;
            if (isa<CXXDestructorDecl>(MD))
                O["dtor"] = true;
        }
        if (FD->isOverloadedOperator())
            O["op"] = getOperatorSpelling(FD->getOverloadedOperator());
        if (FD->isTemplateInstantiation())
        {
            if (auto* TA = FD->getTemplateSpecializationArgs())
            {
                json::Array Args;
                for (auto& A : TA->asArray())
                {
                    if (A.getKind() == TemplateArgument::Type)
                        Args.push_back(A.getAsType().getCanonicalType().getAsString(PP));
                    else if (A.getKind() == TemplateArgument::Integral)
                        Args.push_back(llvm::toString(A.getAsIntegral(), 10));
                    else
                        Args.push_back("?");
                }
                O["targs"] = std::move(Args);
            }
        }
        return O;
    }

    // ------------------------------------------------------------------ AST
    int newId(const Stmt* S)
    {
        int Id = NextNode++;
        NodeIds[S] = Id;
        return Id;
    }

    json::Value node(const Stmt* S)
    {
        if (!S)
            return nullptr;

        // transparent wrappers
        if (auto* E = dyn_cast<ParenExpr>(S))
            return alias(S, E->getSubExpr());
        if (auto* E = dyn_cast<FullExpr>(S))  // ExprWithCleanups, ConstantExpr
            return alias(S, E->getSubExpr());
        if (auto* E = dyn_cast<MaterializeTemporaryExpr>(S))
            return alias(S, E->getSubExpr());
        if (auto* E = dyn_cast<CXXBindTemporaryExpr>(S))
            return alias(S, E->getSubExpr());
        if (auto* E = dyn_cast<SubstNonTypeTemplateParmExpr>(S))
            return alias(S, E->getReplacement());
        if (auto* E = dyn_cast<CXXDefaultArgExpr>(S))
            return alias(S, E->getExpr());
        if (auto* E = dyn_cast<CXXDefaultInitExpr>(S))
            return alias(S, E->getExpr());
        if (auto* E = dyn_cast<ImplicitCastExpr>(S))
        {
            switch (E->getCastKind())
            {
                case CK_LValueToRValue:
                case CK_NoOp:
                case CK_FunctionToPointerDecay:
                case CK_UserDefinedConversion:
                case CK_ConstructorConversion:
                    return alias(S, E->getSubExpr());
                default:
                    break;
            }
        }

        json::Object O;
        O["id"] = newId(S);
        O["loc"] = locStr(S->getBeginLoc());
        if (auto* E = dyn_cast<Expr>(S))
        {
            O["t"] = typeInfo(E->getType());
            if (!isa<IntegerLiteral>(E) && !isa<CXXBoolLiteralExpr>(E))
                addConst(O, E);
        }

        if (auto* CS = dyn_cast<CompoundStmt>(S))
        {
            O["k"] = "compound";
            json::Array A;
            for (auto* C : CS->body())
                A.push_back(node(C));
            O["body"] = std::move(A);
        }
        else if (auto* DS = dyn_cast<DeclStmt>(S))
        {
            O["k"] = "decl";
            json::Array A;
            for (auto* D : DS->decls())
            {
                json::Object V;
                if (auto* VD = dyn_cast<VarDecl>(D))
                {
                    V["decl"] = localId(VD);
                    V["name"] = VD->getNameAsString();
                    V["t"] = typeInfo(VD->getType());
                    V["static"] = VD->isStaticLocal();
                    if (VD->hasInit())
                        V["init"] = node(VD->getInit());
                }
                else
                {
                    V["other"] = D->getDeclKindName();
                }
                A.push_back(std::move(V));
            }
            O["vars"] = std::move(A);
        }
        else if (auto* IS = dyn_cast<IfStmt>(S))
        {
            O["k"] = "if";
            if (IS->getInit())
                O["init"] = node(IS->getInit());
            if (IS->getConditionVariableDeclStmt())
                O["condvar"] = node(IS->getConditionVariableDeclStmt());
            O["cond"] = node(IS->getCond());
            O["then"] = node(IS->getThen());
            if (IS->getElse())
                O["else"] = node(IS->getElse());
        }
        else if (auto* WS = dyn_cast<WhileStmt>(S))
        {
            O["k"] = "while";
            O["cond"] = node(WS->getCond());
            O["body"] = node(WS->getBody());
        }
        else if (auto* DoS = dyn_cast<DoStmt>(S))
        {
            O["k"] = "do";
            O["cond"] = node(DoS->getCond());
            O["body"] = node(DoS->getBody());
        }
        else if (auto* FS = dyn_cast<ForStmt>(S))
        {
            O["k"] = "for";
            if (FS->getInit())
                O["init"] = node(FS->getInit());
            if (FS->getCond())
                O["cond"] = node(FS->getCond());
            if (FS->getInc())
                O["inc"] = node(FS->getInc());
            O["body"] = node(FS->getBody());
        }
        else if (auto* RF = dyn_cast<CXXForRangeStmt>(S))
        {
            O["k"] = "rangefor";
            if (RF->getRangeInit())
                O["range"] = node(RF->getRangeInit());
            if (auto* LV = RF->getLoopVariable())
            {
                O["var"] = localId(LV);
                O["vart"] = typeInfo(LV->getType());
            }
            // register the implicit statements so CFG elements resolve
            if (RF->getRangeStmt())
                O["rangestmt"] = node(RF->getRangeStmt());
            if (RF->getBeginStmt())
                O["beginstmt"] = node(RF->getBeginStmt());
            if (RF->getEndStmt())
                O["endstmt"] = node(RF->getEndStmt());
            if (RF->getCond())
                O["cond"] = node(RF->getCond());
            if (RF->getInc())
                O["inc"] = node(RF->getInc());
            if (RF->getLoopVarStmt())
                O["loopvarstmt"] = node(RF->getLoopVarStmt());
            O["body"] = node(RF->getBody());
        }
        else if (auto* SS = dyn_cast<SwitchStmt>(S))
        {
            O["k"] = "switch";
            if (SS->getInit())
                O["init"] = node(SS->getInit());
            if (SS->getConditionVariableDeclStmt())
                O["condvar"] = node(SS->getConditionVariableDeclStmt());
            O["cond"] = node(SS->getCond());
            O["body"] = node(SS->getBody());
        }
        else if (auto* CaS = dyn_cast<CaseStmt>(S))
        {
            O["k"] = "case";
            O["value"] = node(CaS->getLHS());
            O["sub"] = node(CaS->getSubStmt());
        }
        else if (auto* DfS = dyn_cast<DefaultStmt>(S))
        {
            O["k"] = "default";
            O["sub"] = node(DfS->getSubStmt());
        }
        else if (isa<BreakStmt>(S))
            O["k"] = "break";
        else if (isa<ContinueStmt>(S))
            O["k"] = "continue";
        else if (isa<NullStmt>(S))
            O["k"] = "null";
        else if (auto* RS = dyn_cast<ReturnStmt>(S))
        {
            O["k"] = "return";
            if (RS->getRetValue())
                O["e"] = node(RS->getRetValue());
        }
        else if (auto* TS = dyn_cast<CXXTryStmt>(S))
        {
            O["k"] = "try";
            O["body"] = node(TS->getTryBlock());
            json::Array H;
            for (unsigned I = 0; I < TS->getNumHandlers(); ++I)
                H.push_back(node(TS->getHandler(I)->getHandlerBlock()));
            O["handlers"] = std::move(H);
        }
        // ---------------- expressions
        else if (auto* IL = dyn_cast<IntegerLiteral>(S))
        {
            O["k"] = "lit";
            llvm::APInt V = IL->getValue();
            if (V.getActiveBits() <= 63)
                O["cv"] = (int64_t) V.getZExtValue();
            else
                O["cvs"] = llvm::toString(V, 10, false);
        }
        else if (auto* BL = dyn_cast<CXXBoolLiteralExpr>(S))
        {
            O["k"] = "lit";
            O["cv"] = BL->getValue() ? 1 : 0;
            O["bool"] = true;
        }
        else if (auto* CL = dyn_cast<CharacterLiteral>(S))
        {
            O["k"] = "lit";
            O["cv"] = (int64_t) CL->getValue();
        }
        else if (auto* FL = dyn_cast<FloatingLiteral>(S))
        {
            O["k"] = "lit";
            O["cvf"] = FL->getValueAsApproximateDouble();
        }
        else if (isa<CXXNullPtrLiteralExpr>(S) || isa<GNUNullExpr>(S))
        {
            O["k"] = "lit";
            O["null"] = true;
        }
        else if (auto* SL = dyn_cast<StringLiteral>(S))
        {
            O["k"] = "lit";
            O["str"] = SL->getBytes().str();
        }
        else if (auto* DRE = dyn_cast<DeclRefExpr>(S))
        {
            O["k"] = "ref";
            const ValueDecl* D = DRE->getDecl();
            O["name"] = D->getNameAsString();
            if (auto* ECD = dyn_cast<EnumConstantDecl>(D))
            {
                O["dk"] = "enumerator";
                O["decl"] = qualName(ECD);
                llvm::APSInt V = ECD->getInitVal();
                O["cv"] = V.isSigned() ? V.getExtValue() : (int64_t) V.getZExtValue();
            }
            else if (auto* VD = dyn_cast<VarDecl>(D))
            {
                if (VD->isLocalVarDeclOrParm() && !VD->isStaticLocal())
                {
                    O["dk"] = isa<ParmVarDecl>(VD) ? "param" : "local";
                    O["decl"] = localId(VD);
                }
                else
                {
                    O["dk"] = VD->isStaticLocal() ? "staticlocal" : (VD->isStaticDataMember() ? "staticmember" : "global");
                    O["decl"] = qualName(VD);
                    O["inrepo"] = inRoot(VD->getLocation());
                    O["vconst"] = VD->getType().isConstQualified();
                }
            }
            else if (auto* FD = dyn_cast<FunctionDecl>(D))
            {
                O["dk"] = "function";
                O["decl"] = qualName(FD);
                O["fn"] = calleeInfo(FD);
            }
            else if (auto* BD = dyn_cast<BindingDecl>(D))
            {
                O["dk"] = "local";
                O["decl"] = localId(BD);
            }
            else
            {
                O["dk"] = "other";
                O["decl"] = qualName(D);
            }
        }
        else if (auto* ME = dyn_cast<MemberExpr>(S))
        {
            O["k"] = "member";
            O["arrow"] = ME->isArrow();
            O["base"] = node(ME->getBase());
            const ValueDecl* D = ME->getMemberDecl();
            O["name"] = D->getNameAsString();
            if (auto* FD = dyn_cast<FieldDecl>(D))
            {
                O["dk"] = "field";
                O["field"] = qualName(FD);
                O["rec"] = qualName(FD->getParent());
            }
            else if (auto* MD = dyn_cast<CXXMethodDecl>(D))
            {
                O["dk"] = "method";
                O["fn"] = calleeInfo(MD);
            }
            else if (auto* VD = dyn_cast<VarDecl>(D))
            {
                O["dk"] = "staticmember";
                O["decl"] = qualName(VD);
                O["vconst"] = VD->getType().isConstQualified();
            }
            else
                O["dk"] = "other";
        }
        else if (isa<CXXThisExpr>(S))
        {
            O["k"] = "this";
        }
        else if (auto* OC = dyn_cast<CXXOperatorCallExpr>(S))
        {
            O["k"] = "call";
            O["ck"] = "operator";
            O["op"] = getOperatorSpelling(OC->getOperator());
            const FunctionDecl* FD = OC->getDirectCallee();
            O["callee"] = calleeInfo(FD);
            json::Array A;
            bool IsMember = FD && isa<CXXMethodDecl>(FD) && !cast<CXXMethodDecl>(FD)->isStatic();
            unsigned I = 0;
            if (IsMember && OC->getNumArgs() > 0)
            {
                O["obj"] = node(OC->getArg(0));
                I = 1;
            }
            for (; I < OC->getNumArgs(); ++I)
                A.push_back(node(OC->getArg(I)));
            O["args"] = std::move(A);
        }
        else if (auto* MC = dyn_cast<CXXMemberCallExpr>(S))
        {
            O["k"] = "call";
            O["ck"] = "member";
            const CXXMethodDecl* MD = MC->getMethodDecl();
            O["callee"] = calleeInfo(MD);
            if (auto* CalleeME = dyn_cast<MemberExpr>(MC->getCallee()->IgnoreParens()))
            {
                O["obj"] = node(CalleeME->getBase());
                O["arrow"] = CalleeME->isArrow();
                NodeIds[CalleeME] = -2;
            }
            else
                O["calleeexpr"] = node(MC->getCallee());
            json::Array A;
            for (auto* Arg : MC->arguments())
                A.push_back(node(Arg));
            O["args"] = std::move(A);
        }
        else if (auto* CE = dyn_cast<CallExpr>(S))
        {
            O["k"] = "call";
            const FunctionDecl* FD = CE->getDirectCallee();
            if (FD)
            {
                O["ck"] = "free";
                O["callee"] = calleeInfo(FD);
                if (auto* MD = dyn_cast<CXXMethodDecl>(FD); MD && MD->isStatic())
                    O["ck"] = "static";
                // mark callee sub-expression nodes as consumed
                markConsumed(CE->getCallee());
            }
            else
            {
                O["ck"] = "indirect";
                O["calleeexpr"] = node(CE->getCallee());
            }
            json::Array A;
            for (auto* Arg : CE->arguments())
                A.push_back(node(Arg));
            O["args"] = std::move(A);
        }
        else if (auto* CC = dyn_cast<CXXConstructExpr>(S))
        {
            O["k"] = "construct";
            O["callee"] = calleeInfo(CC->getConstructor());
            O["rec"] = qualName(CC->getConstructor()->getParent());
            O["temp"] = isa<CXXTemporaryObjectExpr>(CC);
            O["elidable"] = CC->isElidable();
            O["listinit"] = CC->isListInitialization();
            O["copy"] = CC->getConstructor()->isCopyConstructor();
            O["move"] = CC->getConstructor()->isMoveConstructor();
            O["default"] = CC->getConstructor()->isDefaultConstructor();
            json::Array A;
            for (auto* Arg : CC->arguments())
                A.push_back(node(Arg));
            O["args"] = std::move(A);
        }
        else if (auto* NE = dyn_cast<CXXNewExpr>(S))
        {
            O["k"] = "new";
            O["array"] = NE->isArray();
            O["alloct"] = NE->getAllocatedType().getCanonicalType().getAsString(PP);
            if (NE->getInitializer())
                O["init"] = node(NE->getInitializer());
            if (NE->isArray() && NE->getArraySize() && *NE->getArraySize())
                O["size"] = node(*NE->getArraySize());
        }
        else if (auto* DE = dyn_cast<CXXDeleteExpr>(S))
        {
            O["k"] = "delete";
            O["e"] = node(DE->getArgument());
        }
        else if (auto* UO = dyn_cast<UnaryOperator>(S))
        {
            O["k"] = "un";
            std::string Op = UnaryOperator::getOpcodeStr(UO->getOpcode()).str();
            if (UO->isPostfix())
                Op = "post" + Op;
            else if (UO->isIncrementDecrementOp())
                Op = "pre" + Op;
            O["op"] = Op;
            O["e"] = node(UO->getSubExpr());
        }
        else if (auto* CAO = dyn_cast<CompoundAssignOperator>(S))
        {
            O["k"] = "cassign";
            std::string Op = BinaryOperator::getOpcodeStr(CAO->getOpcode()).str();
            Op.pop_back();  // strip '='
            O["op"] = Op;
            O["l"] = node(CAO->getLHS());
            O["r"] = node(CAO->getRHS());
            O["ct"] = typeInfo(CAO->getComputationResultType());
        }
        else if (auto* BO = dyn_cast<BinaryOperator>(S))
        {
            if (BO->isAssignmentOp())
                O["k"] = "assign";
            else
                O["k"] = "bin";
            O["op"] = BinaryOperator::getOpcodeStr(BO->getOpcode()).str();
            O["l"] = node(BO->getLHS());
            O["r"] = node(BO->getRHS());
        }
        else if (auto* CO = dyn_cast<ConditionalOperator>(S))
        {
            O["k"] = "cond";
            O["c"] = node(CO->getCond());
            O["a"] = node(CO->getTrueExpr());
            O["b"] = node(CO->getFalseExpr());
        }
        else if (auto* CastE = dyn_cast<CastExpr>(S))
        {
            O["k"] = "cast";
            O["ck"] = CastE->getCastKindName();
            bool Explicit = isa<ExplicitCastExpr>(CastE);
            O["explicit"] = Explicit;
            if (isa<CXXStaticCastExpr>(CastE))
                O["written"] = "static";
            else if (isa<CXXReinterpretCastExpr>(CastE))
                O["written"] = "reinterpret";
            else if (isa<CXXConstCastExpr>(CastE))
                O["written"] = "const";
            else if (isa<CXXDynamicCastExpr>(CastE))
                O["written"] = "dynamic";
            else if (isa<CStyleCastExpr>(CastE))
                O["written"] = "cstyle";
            else if (isa<CXXFunctionalCastExpr>(CastE))
                O["written"] = "functional";
            else
                O["written"] = "implicit";
            O["from"] = typeInfo(CastE->getSubExpr()->getType());
            O["e"] = node(CastE->getSubExpr());
        }
        else if (auto* UETT = dyn_cast<UnaryExprOrTypeTraitExpr>(S))
        {
            O["k"] = "sizeof";
            O["trait"] = (int64_t) UETT->getKind();
            QualType AT = UETT->getTypeOfArgument();
            O["of"] = AT.getCanonicalType().getAsString(PP);
            if (auto* RD = AT->getAsCXXRecordDecl())
                O["ofrec"] = qualName(RD);
            if (!UETT->isArgumentType())
                O["ofexpr"] = node(UETT->getArgumentExpr());
        }
        else if (auto* ILE = dyn_cast<InitListExpr>(S))
        {
            O["k"] = "initlist";
            if (auto* RD = ILE->getType()->getAsCXXRecordDecl())
                O["rec"] = qualName(RD);
            json::Array A;
            for (auto* I : ILE->inits())
                A.push_back(node(I));
            O["inits"] = std::move(A);
        }
        else if (auto* AS = dyn_cast<ArraySubscriptExpr>(S))
        {
            O["k"] = "subscript";
            O["base"] = node(AS->getBase());
            O["idx"] = node(AS->getIdx());
        }
        else if (auto* LE = dyn_cast<LambdaExpr>(S))
        {
            O["k"] = "lambda";
            json::Array Caps;
            for (auto& C : LE->captures())
            {
                json::Object CO2;
                if (C.capturesVariable())
                {
                    CO2["decl"] = localId(C.getCapturedVar());
                    CO2["name"] = C.getCapturedVar()->getNameAsString();
                }
                else if (C.capturesThis())
                    CO2["this"] = true;
                CO2["byref"] = C.getCaptureKind() == LCK_ByRef;
                Caps.push_back(std::move(CO2));
            }
            O["captures"] = std::move(Caps);
            json::Array Ps;
            if (auto* CO3 = LE->getCallOperator())
            {
                for (auto* P : CO3->parameters())
                {
                    json::Object PO;
                    PO["decl"] = localId(P);
                    PO["name"] = P->getNameAsString();
                    PO["t"] = typeInfo(P->getType());
                    Ps.push_back(std::move(PO));
                }
                O["params"] = std::move(Ps);
                O["body"] = node(CO3->getBody());
            }
        }
        else if (isa<ImplicitValueInitExpr>(S) || isa<CXXScalarValueInitExpr>(S))
        {
            O["k"] = "zeroinit";
        }
        else if (auto* TE = dyn_cast<CXXThrowExpr>(S))
        {
            O["k"] = "throw";
            if (TE->getSubExpr())
                O["e"] = node(TE->getSubExpr());
        }
        else if (auto* SIL = dyn_cast<CXXStdInitializerListExpr>(S))
        {
            O["k"] = "stdinitlist";
            O["e"] = node(SIL->getSubExpr());
        }
        else if (auto* UL = dyn_cast<UnresolvedLookupExpr>(S))
        {
            O["k"] = "unresolved";
            O["name"] = UL->getName().getAsString();
        }
        else if (auto* UM = dyn_cast<UnresolvedMemberExpr>(S))
        {
            O["k"] = "unresolved";
            O["name"] = UM->getMemberName().getAsString();
            if (!UM->isImplicitAccess())
                O["base"] = node(UM->getBase());
        }
        else if (auto* DM = dyn_cast<CXXDependentScopeMemberExpr>(S))
        {
            O["k"] = "unresolved";
            O["name"] = DM->getMember().getAsString();
            if (!DM->isImplicitAccess())
                O["base"] = node(DM->getBase());
        }
        else
        {
            O["k"] = "other";
            O["cls"] = S->getStmtClassName();
            json::Array A;
            for (auto* C : S->children())
                A.push_back(node(C));
            O["children"] = std::move(A);
        }
        return std::move(O);
    }

    json::Value alias(const Stmt* Outer, const Stmt* Inner)
    {
        json::Value V = node(Inner);
        auto It = NodeIds.find(Inner);
        if (It != NodeIds.end())
            NodeIds[Outer] = It->second;
        return V;
    }

    void markConsumed(const Stmt* S)
    {
        if (!S)
            return;
        NodeIds[S] = -2;
        for (auto* C : S->children())
            markConsumed(C);
    }

    // ------------------------------------------------------------------ CFG
    json::Value cfgOf(const FunctionDecl* FD)
    {
        CFG::BuildOptions BO;
        BO.setAllAlwaysAdd();
        BO.AddInitializers = true;
        BO.AddImplicitDtors = false;
        BO.AddTemporaryDtors = false;
        BO.PruneTriviallyFalseEdges = false;
        std::unique_ptr<CFG> G = CFG::buildCFG(FD, FD->getBody(), &Ctx, BO);
        if (!G)
            return nullptr;
        json::Object O;
        O["entry"] = (int64_t) G->getEntry().getBlockID();
        O["exit"] = (int64_t) G->getExit().getBlockID();
        json::Array Blocks;
        for (const CFGBlock* B : *G)
        {
            json::Object BJ;
            BJ["id"] = (int64_t) B->getBlockID();
            json::Array El;
            for (const CFGElement& E : *B)
            {
                const Stmt* S = nullptr;
                if (auto CS = E.getAs<CFGStmt>())
                    S = CS->getStmt();
                else if (auto CI = E.getAs<CFGInitializer>())
                    S = CI->getInitializer()->getInit();
                if (!S)
                    continue;
                auto It = NodeIds.find(S);
                if (It == NodeIds.end())
                    El.push_back(-1);
                else if (It->second >= 0)
                {
                    // transparent wrappers share an id with their child: keep one
                    if (El.empty() || !(El.back().getAsInteger() && *El.back().getAsInteger() == It->second))
                        El.push_back(It->second);
                }
            }
            BJ["el"] = std::move(El);
            if (const Stmt* T = B->getTerminatorStmt())
            {
                auto It = NodeIds.find(T);
                BJ["term"] = It == NodeIds.end() ? -1 : It->second;
                BJ["tk"] = T->getStmtClassName();
            }
            if (const Stmt* C = B->getTerminatorCondition(true))
            {
                auto It = NodeIds.find(C);
                BJ["cond"] = It == NodeIds.end() ? -1 : It->second;
            }
            if (const Stmt* L = B->getLabel())
            {
                auto It = NodeIds.find(L);
                BJ["label"] = It == NodeIds.end() ? -1 : It->second;
                if (auto* CS = dyn_cast<CaseStmt>(L))
                {
                    Expr::EvalResult R;
                    if (!CS->getLHS()->isValueDependent() && CS->getLHS()->EvaluateAsInt(R, Ctx))
                        BJ["case"] = R.Val.getInt().getExtValue();
                }
                else if (isa<DefaultStmt>(L))
                    BJ["default"] = true;
            }
            json::Array Succ;
            for (auto I = B->succ_begin(); I != B->succ_end(); ++I)
            {
                const CFGBlock* SB = I->getReachableBlock();
                if (!SB)
                    SB = I->getPossiblyUnreachableBlock();
                if (SB)
                    Succ.push_back((int64_t) SB->getBlockID());
                else
                    Succ.push_back(nullptr);
            }
            BJ["succ"] = std::move(Succ);
            if (B->hasNoReturnElement())
                BJ["noreturn"] = true;
            Blocks.push_back(std::move(BJ));
        }
        O["blocks"] = std::move(Blocks);
        return std::move(O);
    }

    // ------------------------------------------------------------------ decls
    void exportFunction(const FunctionDecl* FD)
    {
        if (!FD->doesThisDeclarationHaveABody() || !FD->getBody())
            return;
        if (FD->isDefaulted() || FD->isImplicit())
        {
            // defaulted bodies are synthesised; special member facts are in the record
            if (!isa<CXXMethodDecl>(FD) || !cast<CXXMethodDecl>(FD)->getParent()->isLambda())
                return;
        }
        if (!inRoot(FD->getLocation()))
            return;
        if (!SeenFuncs.insert(FD).second)
            return;

        NodeIds.clear();
        LocalIds.clear();
        NextNode = 0;
        NextLocal = 0;
        CurFn = FD;

        json::Object O = calleeInfo(FD);
        O["loc"] = locStr(FD->getLocation());
        O["file"] = fileOf(FD->getLocation()).substr(Root.size());
        O["line0"] = (int64_t) SM.getExpansionLineNumber(FD->getBeginLoc());
        O["line1"] = (int64_t) SM.getExpansionLineNumber(FD->getEndLoc());
        bool Templated = FD->isTemplated() || FD->isDependentContext();
        O["templated"] = Templated;
        O["instantiation"] = FD->isTemplateInstantiation();
        O["constexpr"] = FD->isConstexpr();
        O["inline"] = FD->isInlined();
        O["access"] = accessStr(FD->getAccess());
        json::Array Ps;
        for (auto* P : FD->parameters())
        {
            json::Object PO;
            PO["decl"] = localId(P);
            PO["name"] = P->getNameAsString();
            PO["t"] = typeInfo(P->getType());
            Ps.push_back(std::move(PO));
        }
        O["params"] = std::move(Ps);
        O["rett"] = typeInfo(FD->getReturnType());

        if (auto* CD = dyn_cast<CXXConstructorDecl>(FD))
        {
            json::Array Inits;
            for (auto* I : CD->inits())
            {
                json::Object IO;
                if (I->isAnyMemberInitializer())
                {
                    IO["field"] = qualName(I->getAnyMember());
                    IO["name"] = I->getAnyMember()->getNameAsString();
                }
                else if (I->isBaseInitializer())
                    IO["base"] = I->getBaseClass()->getCanonicalTypeInternal().getAsString(PP);
                else if (I->isDelegatingInitializer())
                    IO["delegating"] = true;
                IO["written"] = I->isWritten();
                IO["e"] = node(I->getInit());
                Inits.push_back(std::move(IO));
            }
            O["inits"] = std::move(Inits);
        }
        O["body"] = node(FD->getBody());
        if (!Templated)
            O["cfg"] = cfgOf(FD);
        O["nnodes"] = NextNode;
        Functions.push_back(std::move(O));
        CurFn = nullptr;
    }

    static const char* accessStr(AccessSpecifier A)
    {
        switch (A)
        {
            case AS_public:
                return "public";
            case AS_protected:
                return "protected";
            case AS_private:
                return "private";
            default:
                return "none";
        }
    }

    json::Value initValue(const Expr* E)
    {
        // initialisers are exported as a tiny tree outside any function
        NodeIds.clear();
        LocalIds.clear();
        NextNode = 0;
        NextLocal = 0;
        CurFn = nullptr;
        return node(E);
    }

    void exportRecord(const CXXRecordDecl* RD)
    {
        if (!RD->isThisDeclarationADefinition() || !RD->isCompleteDefinition())
            return;
        if (RD->isDependentType() || RD->isLambda())
            return;
        if (!inRoot(RD->getLocation()))
            return;
        if (!SeenRecords.insert(RD->getCanonicalDecl()).second)
            return;
        json::Object O;
        O["name"] = qualName(RD);
        O["loc"] = locStr(RD->getLocation());
        O["union"] = RD->isUnion();
        O["kind"] = RD->getKindName().str();
        O["final"] = RD->hasAttr<FinalAttr>();
        O["polymorphic"] = RD->isPolymorphic();
        O["trivially_copyable"] = RD->isTriviallyCopyable();
        O["standard_layout"] = RD->isStandardLayout();
        O["anon"] = RD->isAnonymousStructOrUnion();
        O["access"] = accessStr(RD->getAccess());
        if (auto* P = dyn_cast<CXXRecordDecl>(RD->getDeclContext()))
            O["parent"] = qualName(P);
        json::Array Bases;
        for (auto& B : RD->bases())
        {
            json::Object BO;
            if (auto* BD = B.getType()->getAsCXXRecordDecl())
                BO["name"] = qualName(BD);
            BO["access"] = accessStr(B.getAccessSpecifier());
            BO["virtual"] = B.isVirtual();
            Bases.push_back(std::move(BO));
        }
        O["bases"] = std::move(Bases);

        const ASTRecordLayout& L = Ctx.getASTRecordLayout(RD);
        O["size"] = (int64_t) L.getSize().getQuantity();
        O["datasize"] = (int64_t) L.getDataSize().getQuantity();
        O["align"] = (int64_t) L.getAlignment().getQuantity();
        if (auto* MFA = RD->getAttr<MaxFieldAlignmentAttr>())
            O["maxfieldalign"] = (int64_t) MFA->getAlignment();
        O["packed_attr"] = RD->hasAttr<PackedAttr>();

        json::Array Fields;
        unsigned Idx = 0;
        for (auto* F : RD->fields())
        {
            json::Object FO;
            FO["name"] = F->getNameAsString();
            FO["qname"] = qualName(F);
            FO["t"] = typeInfo(F->getType());
            FO["offset_bits"] = (int64_t) L.getFieldOffset(Idx);
            if (!F->getType()->isIncompleteType())
                FO["size_bits"] = (int64_t) Ctx.getTypeSize(F->getType());
            if (F->isBitField())
                FO["bitwidth"] = (int64_t) F->getBitWidthValue(Ctx);
            FO["access"] = accessStr(F->getAccess());
            FO["mutable"] = F->isMutable();
            FO["loc"] = locStr(F->getLocation());
            FO["anon_member"] = F->isAnonymousStructOrUnion();
            if (F->hasInClassInitializer() && F->getInClassInitializer())
                FO["init"] = initValue(F->getInClassInitializer());
            Fields.push_back(std::move(FO));
            ++Idx;
        }
        O["fields"] = std::move(Fields);

        json::Array Methods;
        for (auto* D : RD->decls())
        {
            const CXXMethodDecl* M = dyn_cast<CXXMethodDecl>(D);
            if (!M)
            {
                if (auto* FTD = dyn_cast<FunctionTemplateDecl>(D))
                    M = dyn_cast<CXXMethodDecl>(FTD->getTemplatedDecl());
            }
            if (!M)
                continue;
            json::Object MO = calleeInfo(M);
            MO["access"] = accessStr(M->getAccess());
            MO["implicit"] = M->isImplicit();
            MO["defaulted"] = M->isDefaulted();
            MO["deleted"] = M->isDeleted();
            MO["user_provided"] = M->isUserProvided();
            MO["template"] = M->getDescribedFunctionTemplate() != nullptr;
            MO["loc"] = locStr(M->getLocation());
            if (auto* CD = dyn_cast<CXXConstructorDecl>(M))
            {
                MO["copy_ctor"] = CD->isCopyConstructor();
                MO["move_ctor"] = CD->isMoveConstructor();
                MO["default_ctor"] = CD->isDefaultConstructor();
            }
            MO["copy_assign"] = M->isCopyAssignmentOperator();
            MO["move_assign"] = M->isMoveAssignmentOperator();
            Methods.push_back(std::move(MO));
        }
        O["methods"] = std::move(Methods);

        json::Object Sp;
        Sp["has_user_declared_ctor"] = RD->hasUserDeclaredConstructor();
        Sp["has_default_ctor"] = RD->hasDefaultConstructor();
        Sp["has_user_provided_default_ctor"] = RD->hasUserProvidedDefaultConstructor();
        Sp["user_declared_copy_ctor"] = RD->hasUserDeclaredCopyConstructor();
        Sp["user_declared_move_ctor"] = RD->hasUserDeclaredMoveConstructor();
        Sp["user_declared_copy_assign"] = RD->hasUserDeclaredCopyAssignment();
        Sp["user_declared_move_assign"] = RD->hasUserDeclaredMoveAssignment();
        Sp["user_declared_dtor"] = RD->hasUserDeclaredDestructor();
        Sp["trivial_default_ctor"] = RD->hasTrivialDefaultConstructor();
        Sp["in_class_initializer"] = RD->hasInClassInitializer();
        Sp["needs_implicit_copy_ctor"] = RD->needsImplicitCopyConstructor();
        O["special"] = std::move(Sp);

        json::Array Friends;
        for (auto* F : RD->friends())
        {
            if (auto* ND = F->getFriendDecl())
                Friends.push_back(qualName(ND));
        }
        O["friends"] = std::move(Friends);
        Records.push_back(std::move(O));
    }

    void exportEnum(const EnumDecl* ED)
    {
        if (!ED->isCompleteDefinition() || !inRoot(ED->getLocation()))
            return;
        if (!SeenEnums.insert(ED->getCanonicalDecl()).second)
            return;
        json::Object O;
        O["name"] = qualName(ED);
        O["loc"] = locStr(ED->getLocation());
        O["scoped"] = ED->isScoped();
        O["underlying"] = ED->getIntegerType().getCanonicalType().getAsString(PP);
        if (!ED->getIntegerType().isNull() && !ED->getIntegerType()->isDependentType())
            O["bits"] = (int64_t) Ctx.getTypeSize(ED->getIntegerType());
        if (auto* P = dyn_cast<CXXRecordDecl>(ED->getDeclContext()))
            O["parent"] = qualName(P);
        json::Array Es;
        for (auto* E : ED->enumerators())
        {
            json::Object EO;
            EO["name"] = E->getNameAsString();
            llvm::APSInt V = E->getInitVal();
            EO["value"] = V.isSigned() ? V.getExtValue() : (int64_t) V.getZExtValue();
            Es.push_back(std::move(EO));
        }
        O["enumerators"] = std::move(Es);
        Enums.push_back(std::move(O));
    }

    void exportVar(const VarDecl* VD)
    {
        if (!VD->hasGlobalStorage())
            return;
        if (!inRoot(VD->getLocation()))
            return;
        if (VD->isTemplated() || VD->getDeclContext()->isDependentContext())
            return;
        const VarDecl* Def = VD->getDefinition();
        const VarDecl* Use = Def ? Def : VD;
        if (!SeenVars.insert(Use->getCanonicalDecl()).second)
            return;
        json::Object O;
        O["name"] = qualName(Use);
        O["loc"] = locStr(Use->getLocation());
        O["t"] = typeInfo(Use->getType());
        O["const"] = Use->getType().isConstQualified();
        O["constexpr"] = Use->isConstexpr();
        O["static_local"] = Use->isStaticLocal();
        O["static_member"] = Use->isStaticDataMember();
        O["thread_local"] = Use->getTLSKind() != VarDecl::TLS_None;
        O["has_definition"] = Def != nullptr;
        O["mutable_fields"] = false;
        if (auto* RD = Use->getType()->getAsCXXRecordDecl())
            if (RD->hasDefinition())
                O["mutable_fields"] = RD->hasMutableFields();
        if (const VarDecl* IV = Use->getInitializingDeclaration())
        {
            O["has_init"] = true;
            O["constant_init"] = IV->hasConstantInitialization();
            if (IV->getInit())
                O["init"] = initValue(IV->getInit());
        }
        else
            O["has_init"] = false;
        std::string M = mangled(Use);
        if (!M.empty())
            O["mangled"] = M;
        Statics.push_back(std::move(O));
    }
};

class Visitor : public RecursiveASTVisitor<Visitor>
{
public:
    explicit Visitor(Exporter& E)
        : Ex(E)
    {
    }
    bool shouldVisitTemplateInstantiations() const
    {
        return true;
    }
    bool shouldVisitImplicitCode() const
    {
        return false;
    }
    bool VisitCXXRecordDecl(CXXRecordDecl* RD)
    {
        Ex.exportRecord(RD);
        return true;
    }
    bool VisitEnumDecl(EnumDecl* ED)
    {
        Ex.exportEnum(ED);
        return true;
    }
    bool VisitVarDecl(VarDecl* VD)
    {
        Ex.exportVar(VD);
        return true;
    }
    bool VisitFunctionDecl(FunctionDecl* FD)
    {
        Ex.exportFunction(FD);
        return true;
    }

private:
    Exporter& Ex;
};

class Consumer : public ASTConsumer
{
public:
    Consumer(std::string In)
        : InFile(std::move(In))
    {
    }
    void HandleTranslationUnit(ASTContext& Ctx) override
    {
        if (Ctx.getDiagnostics().hasErrorOccurred())
        {
            llvm::errs() << "cmpfacts: compile errors in " << InFile << "\n";
            Failed = true;
            return;
        }
        Exporter Ex(Ctx);
        Visitor V(Ex);
        V.TraverseDecl(Ctx.getTranslationUnitDecl());
        json::Object Top;
        Top["unit"] = InFile;
        Top["root"] = Ex.Root;
        Top["records"] = std::move(Ex.Records);
        Top["enums"] = std::move(Ex.Enums);
        Top["statics"] = std::move(Ex.Statics);
        Top["functions"] = std::move(Ex.Functions);
        std::error_code EC;
        if (OptOut == "-")
        {
            llvm::outs() << json::Value(std::move(Top)) << "\n";
        }
        else
        {
            llvm::raw_fd_ostream OS(OptOut, EC);
            if (EC)
            {
                llvm::errs() << "cmpfacts: cannot write " << OptOut << "\n";
                Failed = true;
                return;
            }
            OS << json::Value(std::move(Top)) << "\n";
        }
    }
    static bool Failed;

private:
    std::string InFile;
};
bool Consumer::Failed = false;

class Action : public ASTFrontendAction
{
public:
    std::unique_ptr<ASTConsumer> CreateASTConsumer(CompilerInstance&, llvm::StringRef InFile) override
    {
        return std::make_unique<Consumer>(InFile.str());
    }
};

}  // namespace

int main(int argc, const char** argv)
{
    auto Parser = tooling::CommonOptionsParser::create(argc, argv, Cat);
    if (!Parser)
    {
        llvm::errs() << llvm::toString(Parser.takeError()) << "\n";
        return 2;
    }
    tooling::ClangTool Tool(Parser->getCompilations(), Parser->getSourcePathList());
    int R = Tool.run(tooling::newFrontendActionFactory<Action>().get());
    if (R != 0 || Consumer::Failed)
        return 2;
    return 0;
}
