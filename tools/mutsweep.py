#!/usr/bin/env python3
"""tools/mutsweep.py [--n N] [--seed S] [--files glob,...]: mutation testing of the checker itself.  One-token mutants
(relational / arithmetic / logical operator, off-by-one constant, dropped statement) of the library's function bodies are
applied, one at a time, to a scratch copy of /repo HEAD; mutants that still compile are run through every check.  Prints the
mutants no check reports (exit 1) — to be triaged by hand: equivalent, out of the properties' scope, or a gap."""
import glob, json, os, random, re, shutil, subprocess, sys, tempfile
from concurrent.futures import ThreadPoolExecutor
HERE = os.path.dirname(os.path.abspath(__file__))
VERIF = os.path.dirname(HERE)
sys.path.insert(0, os.path.join(VERIF, "lib"))
from cmpverif import build
args = sys.argv[1:]
N, SEED, FILES = 200, 1, None
while args:
    if args[0] == "--n": N = int(args[1]); args = args[2:]
    elif args[0] == "--seed": SEED = int(args[1]); args = args[2:]
    elif args[0] == "--files": FILES = args[1].split(","); args = args[2:]
    else: sys.exit("bad option " + args[0])
props = [c["property_id"] for c in json.load(open(os.path.join(VERIF, "MANIFEST.json")))["checks"]]
OPS = [(r"(?<![<>=!\-])<=(?!=)", "<"), (r"(?<![<>=!\-])>=(?!=)", ">"), (r"(?<![<>=\-])<(?![<=])", "<="), (r"(?<![<>=\-])>(?![>=])", ">="),
       (r"==", "!="), (r"!=", "=="), (r"&&", "||"), (r"\|\|", "&&"), (r"(?<![+\w])\+(?![+=])", "-"), (r"(?<![\-\w(,=<>!&|?:] )-(?![\-=>])", "+"),
       (r"\b0\b", "1"), (r"\b1\b", "2"), (r"\b1\b", "0"), (r"\+\+", "--"), (r"sizeof\((\w+)\)", r"(sizeof(\1) + 1)"), (r"\+=", "-="), (r"-=", "+="),
       (r"!(?=[\w(])", ""), (r"\btrue\b", "false"), (r"\bfalse\b", "true"), (r"& ~", "& "), (r"\|=", "&="), (r">> 8", ">> 0"), (r"<< 8", "<< 0")]
files = []
for g in (FILES or ["src/*.cpp", "include/asam_cmp/encoder.h", "include/asam_cmp/decoder.h", "include/asam_cmp/payload.h", "include/asam_cmp/payload_type.h"]):
    files += sorted(glob.glob(os.path.join("/repo", g)))
cands = []
for f in files:
    lines = open(f, "rb").read().decode("utf-8", "replace").split("\n")
    depth = 0
    for i, l in enumerate(lines):
        code = l.split("//")[0]
        if depth > 0 and not code.strip().startswith(("#", "static_assert", "case ", "using ", "template")) and '"' not in code:
            for pat, rep in OPS:
                for mt in re.finditer(pat, code):
                    cands.append((os.path.relpath(f, "/repo"), i, mt.start(), mt.end(), pat, rep))
            if re.match(r"^\s+[\w\.\->\[\]():]+\s*(=|\+=|-=)[^=].*;\s*\r?$", code) or re.match(r"^\s+[\w\.\->:]+\(.*\);\s*\r?$", code):
                cands.append((os.path.relpath(f, "/repo"), i, 0, len(code.rstrip("\r")), "STMT", ";"))
        depth += code.count("{") - code.count("}")
random.Random(SEED).shuffle(cands)
cands = cands[:N]
print("mutants:", len(cands), flush=True)
units = None


def run(c):
    rel, i, a, b, pat, rep = c
    d = tempfile.mkdtemp(prefix="ms-", dir=build._scratch_base())
    try:
        subprocess.run("git -C /repo archive HEAD src include external CMakeLists.txt | tar -x -C %s" % d, shell=True, check=True)
        p = os.path.join(d, rel)
        lines = open(p, "rb").read().decode("utf-8", "replace").split("\n")
        old = lines[i]
        if pat == "STMT":
            new = re.match(r"^\s*", old).group(0) + ";" + ("\r" if old.endswith("\r") else "")
        else:
            new = old[:a] + re.sub(pat, rep, old[a:b], count=1) + old[b:]
        if new == old:
            return c, "same", old, new, []
        lines[i] = new
        open(p, "wb").write("\n".join(lines).encode())
        srcs = [os.path.join(d, "src", x) for x in sorted(os.listdir(d + "/src")) if x.endswith(".cpp")]
        if rel.startswith("src/"):
            srcs = [p]
        r = subprocess.run(["clang++", "-std=c++17", "-fsyntax-only", "-Wall", "-Wextra", "-Werror", "-I" + d + "/include"] + srcs, stdout=subprocess.PIPE, stderr=subprocess.STDOUT)
        if r.returncode:
            return c, "nocompile", old, new, []

        def one(pp):
            r = subprocess.run([os.path.join(VERIF, "check"), pp, "--root", d], stdout=subprocess.PIPE, stderr=subprocess.STDOUT, text=True)
            return pp, r.returncode
        res = [one(props[0])]
        with ThreadPoolExecutor(max_workers=5) as ex:
            res += list(ex.map(one, props[1:]))
        return c, "ran", old, new, res
    finally:
        shutil.rmtree(d, ignore_errors=True)


stats = {"caught": 0, "broken-only": 0, "missed": 0, "nocompile": 0}
with ThreadPoolExecutor(max_workers=3) as ex:
    for c, st, old, new, res in ex.map(run, cands):
        if st != "ran":
            stats["nocompile"] += 1
            continue
        caught = [p for p, rc in res if rc == 1]
        broken = [p for p, rc in res if rc == 2]
        if caught:
            stats["caught"] += 1
        elif broken:
            stats["broken-only"] += 1
            print("BROKEN-ONLY %s:%d  %s  ->  %s   %s" % (c[0], c[1] + 1, old.strip(), new.strip(), broken[:4]), flush=True)
        else:
            stats["missed"] += 1
            print("MISSED      %s:%d  %s  ->  %s" % (c[0], c[1] + 1, old.strip(), new.strip()), flush=True)
print(stats)
