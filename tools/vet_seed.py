#!/usr/bin/env python3
"""tools/vet_seed.py <name> <PROP> <agent_seed_dir> [--needs "text"]

Confirms a seeded change produced by a sub-agent, independently of the agent:
  1. fresh scratch worktree of /repo HEAD (outside /repo and /verif): demo passes,
     patch applies, library + tests build, all tests pass, demo fails;
  2. applies the patch to /repo, runs every claimed check (quick), undoes the patch;
  3. stores patch.diff, demo.cpp, notes.md and meta.json under /verif/seeded/<name>/.
Nothing is ever committed to /repo.
"""
import json
import os
import shutil
import subprocess
import sys
import time

VERIF = os.path.dirname(os.path.dirname(os.path.abspath(__file__)))


def sh(cmd, cwd=None, timeout=1800):
    r = subprocess.run(cmd, shell=True, cwd=cwd, stdout=subprocess.PIPE, stderr=subprocess.STDOUT, text=True, timeout=timeout)
    return r.returncode, r.stdout


def main():
    if sys.argv[1] == "--recheck":
        for name in (sys.argv[2:] or sorted(os.listdir(os.path.join(VERIF, "seeded")))):
            recheck(name)
        return
    name, prop, sdir = sys.argv[1:4]
    needs = ""
    if "--needs" in sys.argv:
        needs = sys.argv[sys.argv.index("--needs") + 1]
    patch = os.path.join(sdir, "patch.diff")
    demo = os.path.join(sdir, "demo.cpp")
    wt = "/tmp/wt/vet-" + name
    sh("git -C /repo worktree remove --force %s" % wt)
    rc, out = sh("git -C /repo worktree add -q --detach %s HEAD" % wt)
    if rc:
        sys.exit("worktree: " + out)
    ran = []
    meta = {"name": name, "property": prop, "base_commit": sh("git -C /repo rev-parse --short HEAD")[1].strip(), "needs_to_manifest": needs}
    try:
        rc, out = sh("g++ -std=c++17 -I%s/include %s %s/src/*.cpp -o %s/demo_before" % (wt, demo, wt, wt))
        if rc:
            sys.exit("demo does not compile on the unchanged tree:\n" + out[-2000:])
        rc0, out0 = sh("%s/demo_before" % wt, timeout=300)
        ran.append("demo on unchanged tree: exit %d" % rc0)
        rc, out = sh("git apply --whitespace=nowarn %s" % patch, cwd=wt)
        if rc:
            sys.exit("patch does not apply to HEAD:\n" + out)
        rc, out = sh("cmake -S %s -B %s/_build -G Ninja >/dev/null && cmake --build %s/_build -j8 2>&1 | tail -3" % (wt, wt, wt))
        ran.append("build with change: exit %d" % rc)
        if rc:
            sys.exit("build fails with the change:\n" + out[-2000:])
        rct, outt = sh("%s/_build/bin/test_asam_cmp 2>&1 | tail -3" % wt, timeout=600)
        passed = "PASSED" in outt and "FAILED" not in outt
        ran.append("test suite with change: %s" % outt.strip().splitlines()[-1])
        rc, out = sh("g++ -std=c++17 -I%s/include %s %s/src/*.cpp -o %s/demo_after" % (wt, demo, wt, wt))
        if rc:
            sys.exit("demo does not compile with the change:\n" + out[-2000:])
        rc1, out1 = sh("%s/demo_after" % wt, timeout=300)
        ran.append("demo with change: exit %d" % rc1)
        meta["what_i_ran"] = ran
        meta["confirmed"] = {"demo_exit_unchanged": rc0, "tests_pass_with_change": passed, "demo_exit_with_change": rc1,
                             "demo_output_with_change": out1[-600:]}
        ok = rc0 == 0 and passed and rc1 != 0
        print("confirmed:", ok, ran)
        if not ok:
            print(out0[-500:], outt, out1[-500:])
            sys.exit(1)
    finally:
        sh("git -C /repo worktree remove --force %s" % wt)
    dst = os.path.join(VERIF, "seeded", name)
    os.makedirs(dst, exist_ok=True)
    shutil.copy(patch, os.path.join(dst, "patch.diff"))
    shutil.copy(demo, os.path.join(dst, "demo.cpp"))
    if os.path.exists(os.path.join(sdir, "notes.md")):
        shutil.copy(os.path.join(sdir, "notes.md"), os.path.join(dst, "notes.md"))
    json.dump(meta, open(os.path.join(dst, "meta.json"), "w"), indent=1)
    # the checks are run on a scratch copy of /repo HEAD with the patch applied (tools/recheck_fast.py), so /repo itself stays clean
    # while other tools are working; `--recheck` is the variant that applies the patch to /repo and undoes it
    subprocess.run([sys.executable, os.path.join(VERIF, "tools", "recheck_fast.py"), name])


def recheck(name):
    dst = os.path.join(VERIF, "seeded", name)
    meta = json.load(open(os.path.join(dst, "meta.json")))
    prop = meta["property"]
    patch = os.path.join(dst, "patch.diff")
    ran = [x for x in meta.get("what_i_ran", []) if not x.startswith("git -C /repo apply")] or []
    # run the checks against it
    rc, out = sh("git -C /repo status --porcelain")
    if out.strip():
        sys.exit("/repo has uncommitted changes; refusing to apply the seed there")
    rc, out = sh("git -C /repo apply --whitespace=nowarn %s" % patch)
    if rc:
        sys.exit("patch does not apply to /repo: " + out)
    results = {}
    try:
        man = json.load(open(os.path.join(VERIF, "MANIFEST.json")))
        for c in man["checks"]:
            pid = c["property_id"]
            t0 = time.time()
            rc, out = sh(c["quick_cmd"] + " --no-selftest", cwd=VERIF)
            viol = [l for l in out.splitlines() if l.startswith("VIOLATION")]
            keys = [l.strip() for l in out.splitlines() if l.startswith("  at ")]
            results[pid] = {"exit": rc, "violations": len(viol), "where": keys[:6]}
    finally:
        sh("git -C /repo checkout -- .")
    caught = sorted(p for p, r in results.items() if r["exit"] == 1)
    broken = sorted(p for p, r in results.items() if r["exit"] == 2)
    meta["checks_run"] = "every quick_cmd of MANIFEST.json at /verif commit %s" % sh("git -C %s rev-parse --short HEAD" % VERIF)[1].strip()
    meta["caught_by"] = {p: results[p]["where"] for p in caught}
    meta["analysis_broken"] = broken
    meta["caught_by_target_property_check"] = prop in caught
    meta["what_i_ran"] = ran + ["git -C /repo apply patch.diff; each quick_cmd; git -C /repo checkout -- ."]
    json.dump(meta, open(os.path.join(dst, "meta.json"), "w"), indent=1)
    print(name, "caught by:", caught, "| broken:", broken, "| target %s caught: %s" % (prop, prop in caught))
    for p in caught:
        print("  ", p, results[p]["where"][:3])


if __name__ == "__main__":
    main()
