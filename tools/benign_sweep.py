#!/usr/bin/env python3
"""tools/benign_sweep.py [name-filter]
Applies each behaviour-preserving refactor of BENIGN to a scratch copy of /repo, checks
that it compiles, runs every registered check with --root, and reports any check that
does not exit 0 (1 = false alarm, 2 = analysis broken).  Used to harden the rules; the
cases that matter are also kept in /verif/selftest/<ID>/b-*.patch."""
import json
import os
import shutil
import subprocess
import sys
from concurrent.futures import ThreadPoolExecutor

HERE = os.path.dirname(os.path.abspath(__file__))
sys.path.insert(0, os.path.join(HERE, "..", "lib"))
from cmpverif import selftest  # noqa: E402

E = lambda s: s.encode().decode("unicode_escape").encode()

BENIGN = {
 "rename-cursor-local": [("src/decoder.cpp", "packetPtr", "cursor", "all")],
 "rename-table-member": [("src/decoder.cpp", "segmentedPackets", "pendingMessages", "all"), ("include/asam_cmp/decoder.h", "segmentedPackets", "pendingMessages", "all")],
 "key-in-local": [("src/decoder.cpp", "    std::shared_ptr<Packet> packet;\n    while", "    std::shared_ptr<Packet> packet;\n    const Endpoint endpoint{deviceId, streamId};\n    while"),
                  ("src/decoder.cpp", "{deviceId, streamId}", "endpoint", "all-after-first")],
 "payload-ctor-copy_n": [("src/payload.cpp", "        memcpy(payloadData.data(), data, size);", "        std::copy_n(data, size, payloadData.data());"), ("src/payload.cpp", "#include <cstring>", "#include <algorithm>\n#include <cstring>")],
 "validator-early-returns": [("src/can_payload_base.cpp", "    auto header = reinterpret_cast<const Header*>(data);\n    return (size >= sizeof(Header) && !header->hasError() && header->getDataLength() <= size - sizeof(Header));",
                              "    if (size < sizeof(Header))\n        return false;\n    auto header = reinterpret_cast<const Header*>(data);\n    if (header->hasError())\n        return false;\n    return header->getDataLength() <= size - sizeof(Header);")],
 "isvalidpacket-early-returns": [("src/packet.cpp", "    auto header = reinterpret_cast<const MessageHeader*>(data);\n    return (size >= sizeof(MessageHeader) && header->getPayloadLength() <= (size - sizeof(MessageHeader)) &&\n            !header->getCommonFlag(MessageHeader::CommonFlags::errorInPayload) && (header->getPayloadType() != 0));",
                                  "    if (size < sizeof(MessageHeader))\n        return false;\n    auto header = reinterpret_cast<const MessageHeader*>(data);\n    if (header->getPayloadLength() > size - sizeof(MessageHeader))\n        return false;\n    if (header->getCommonFlag(MessageHeader::CommonFlags::errorInPayload))\n        return false;\n    return header->getPayloadType() != 0;")],
 "trim-ternary": [("src/encoder.cpp", "        cmpFrames.back().resize(std::max(cmpFrames.back().size() - bytesLeft, minBytesPerMessage), 0);\n\n    if (cmpFrameTemplate.empty())",
                   "    {\n        const size_t used = cmpFrames.back().size() - bytesLeft;\n        cmpFrames.back().resize(used > minBytesPerMessage ? used : minBytesPerMessage, 0);\n    }\n\n    if (cmpFrameTemplate.empty())")],
 "emplace-back-frame": [("src/encoder.cpp", "    cmpFrames.push_back(cmpFrameTemplate);", "    cmpFrames.emplace_back(cmpFrameTemplate);")],
 "lookup-by-loop": [("src/status.cpp", "    auto devIt = std::find_if(\n        devices.begin(), devices.end(), [&deviceId](const DeviceStatus& device) { return device.getPacket().getDeviceId() == deviceId; });\n    return std::distance(devices.begin(), devIt);",
                     "    for (size_t i = 0; i < devices.size(); ++i)\n        if (devices[i].getPacket().getDeviceId() == deviceId)\n            return i;\n    return devices.size();")],
 "status-erase-instead-of-swap-pop": [("src/status.cpp", "        std::swap(devices[index], devices[devices.size() - 1]);\n        devices.pop_back();", "        devices.erase(devices.begin() + static_cast<std::ptrdiff_t>(index));")],
 "encoder-counter-separate-increment": [("src/encoder.cpp", "    header->setSequenceCounter(++sequenceCounter);", "    ++sequenceCounter;\n    header->setSequenceCounter(sequenceCounter);")],
 "swap-endian-builtin-16": [("include/asam_cmp/common.h", "    return ((value & 0xFF00) >> 8) | ((value & 0x00FF) << 8);", "    return static_cast<uint16_t>((value >> 8) | (value << 8));")],
 "setflag-ternary": [("src/message_header.cpp", "    commonFlags = value ? (commonFlags | static_cast<uint8_t>(mask)) : (commonFlags & ~static_cast<uint8_t>(mask));",
                      "    if (value)\n        commonFlags |= static_cast<uint8_t>(mask);\n    else\n        commonFlags &= ~static_cast<uint8_t>(mask);")],
 "packet-eq-single-expression": [("src/packet.cpp", "    if (lhs.getVersion() != rhs.getVersion())\n        return false;\n\n    if (lhs.getDeviceId() != rhs.getDeviceId())\n        return false;\n",
                                  "    if (lhs.getVersion() != rhs.getVersion() || lhs.getDeviceId() != rhs.getDeviceId())\n        return false;\n")],
 "addsegment-size-var": [("src/decoder.cpp", "    if (newPayloadSize > size - sizeof(MessageHeader))\n        return false;", "    const size_t room = size - sizeof(MessageHeader);\n    if (newPayloadSize > room)\n        return false;")],
 "decode-for-loop": [("src/decoder.cpp", "    while (curSize > 0)\n    {", "    for (; curSize > 0;)\n    {")],
 "encoder-init-inline": [("src/encoder.cpp", "    init(dataContext);\n    putPacket(packet);", "    clearEncodingMetadata(false);\n    minBytesPerMessage = dataContext.minBytesPerMessage;\n    maxBytesPerMessage = dataContext.maxBytesPerMessage;\n    putPacket(packet);")],
 "tecmp-handle-early-null-return": [("src/tecmp_decoder.cpp", "            auto payload = GetCaptureModulePayload(data, size);\n            if (payload && payload->getMessageType() == CmpHeader::MessageType::cmStatus)\n                payloads.push_back(payload);",
                                     "            auto payload = GetCaptureModulePayload(data, size);\n            if (payload == nullptr)\n                break;\n            if (payload->getMessageType() == CmpHeader::MessageType::cmStatus)\n                payloads.push_back(payload);")],
 "capture-module-end-member-fn": [("src/capture_module_payload.cpp", "    const uint8_t* end = payloadData.data() + payloadData.size();\n    str = std::string_view{};", "    const uint8_t* const end = payloadData.data() + payloadData.size();\n    str = {};")],
 "packet-swap-std": [("src/packet.cpp", "    using std::swap;\n    swap(lhs.version, rhs.version);", "    std::swap(lhs.version, rhs.version);\n    using std::swap;")],
 "dlc-table-if-chain": [("src/can_payload_base.cpp", "        case 12:\n            return 9;\n            break;", "        case 12:\n            return 9;")],
}


def apply(d, edits):
    for ed in edits:
        f, old, new = ed[0], E(ed[1]), E(ed[2])
        mode = ed[3] if len(ed) > 3 else "one"
        p = os.path.join(d, f)
        s = open(p, "rb").read()
        if b"\r\n" in s:
            old, new = old.replace(b"\n", b"\r\n"), new.replace(b"\n", b"\r\n")
        if mode == "one":
            if s.count(old) != 1:
                return "pattern occurs %d times in %s" % (s.count(old), f)
            s = s.replace(old, new)
        elif mode == "all":
            if s.count(old) == 0:
                return "pattern absent in %s" % f
            s = s.replace(old, new)
        elif mode == "all-after-first":
            i = s.find(old)
            if i < 0:
                return "pattern absent"
            s = s[:i + len(old)] + s[i + len(old):].replace(old, new)
        open(p, "wb").write(s)
    return None


def main():
    flt = sys.argv[1] if len(sys.argv) > 1 else ""
    props = [c["property_id"] for c in json.load(open(os.path.join(HERE, "..", "MANIFEST.json")))["checks"]]
    bad = 0
    for name, edits in BENIGN.items():
        if flt and flt not in name:
            continue
        d = selftest.make_scratch("/repo")
        try:
            err = apply(d, edits)
            if err:
                print("%-36s SKIP %s" % (name, err))
                continue
            r = subprocess.run(["clang++", "-std=c++17", "-fsyntax-only", "-I" + d + "/include"] + [os.path.join(d, "src", x) for x in sorted(os.listdir(d + "/src")) if x.endswith(".cpp")],
                               stdout=subprocess.PIPE, stderr=subprocess.STDOUT, text=True)
            if r.returncode:
                print("%-36s DOES NOT COMPILE %s" % (name, r.stdout[-300:]))
                continue

            def one(p):
                r = subprocess.run([os.path.join(HERE, "..", "check"), p, "--root", d], stdout=subprocess.PIPE, stderr=subprocess.STDOUT, text=True)
                return p, r.returncode, r.stdout
            # first run builds the cache; then parallel
            res = [one(props[0])]
            with ThreadPoolExecutor(max_workers=8) as ex:
                res += list(ex.map(one, props[1:]))
            issues = [(p, rc, out) for p, rc, out in res if rc != 0]
            if not issues:
                print("%-36s ok" % name)
            for p, rc, out in issues:
                bad += 1
                lines = [l for l in out.splitlines() if l.startswith(("  at", "ANALYSIS")) or (l.startswith("  ") and not l.startswith("  rule"))]
                print("%-36s %s exit %d: %s" % (name, p, rc, " | ".join(x.strip()[:200] for x in lines[:3])))
        finally:
            shutil.rmtree(d, ignore_errors=True)
    print("issues:", bad)


if __name__ == "__main__":
    main()
