#!/usr/bin/env python3
"""tools/benign_sweep.py [name-filter]
Applies each behaviour-preserving refactor of BENIGN to a scratch copy of /repo, checks
that it compiles, runs every registered check with --root, and reports any check that
does not exit 0 (1 = false alarm, 2 = analysis broken).  Used to harden the rules; the
cases that matter are also kept in /verif/selftest/<ID>/b-*.patch."""
import json
import os
import shutil
import subprocess
import sys
from concurrent.futures import ThreadPoolExecutor

HERE = os.path.dirname(os.path.abspath(__file__))
sys.path.insert(0, os.path.join(HERE, "..", "lib"))
from cmpverif import selftest  # noqa: E402

E = lambda s: s.encode().decode("unicode_escape").encode()

BENIGN = {
 "rename-cursor-local": [("src/decoder.cpp", "packetPtr", "cursor", "all")],
 "rename-table-member": [("src/decoder.cpp", "segmentedPackets", "pendingMessages", "all"), ("include/asam_cmp/decoder.h", "segmentedPackets", "pendingMessages", "all")],
 "key-in-local": [("src/decoder.cpp", "    std::shared_ptr<Packet> packet;\n    while", "    std::shared_ptr<Packet> packet;\n    const Endpoint endpoint{deviceId, streamId};\n    while"),
                  ("src/decoder.cpp", "{deviceId, streamId}", "endpoint", "all-after-first")],
 "payload-ctor-copy_n": [("src/payload.cpp", "        memcpy(payloadData.data(), data, size);", "        std::copy_n(data, size, payloadData.data());"), ("src/payload.cpp", "#include <cstring>", "#include <algorithm>\n#include <cstring>")],
 "validator-early-returns": [("src/can_payload_base.cpp", "    auto header = reinterpret_cast<const Header*>(data);\n    return (size >= sizeof(Header) && !header->hasError() && header->getDataLength() <= size - sizeof(Header));",
                              "    if (size < sizeof(Header))\n        return false;\n    auto header = reinterpret_cast<const Header*>(data);\n    if (header->hasError())\n        return false;\n    return header->getDataLength() <= size - sizeof(Header);")],
 "isvalidpacket-early-returns": [("src/packet.cpp", "    auto header = reinterpret_cast<const MessageHeader*>(data);\n    return (size >= sizeof(MessageHeader) && header->getPayloadLength() <= (size - sizeof(MessageHeader)) &&\n            !header->getCommonFlag(MessageHeader::CommonFlags::errorInPayload) && (header->getPayloadType() != 0));",
                                  "    if (size < sizeof(MessageHeader))\n        return false;\n    auto header = reinterpret_cast<const MessageHeader*>(data);\n    if (header->getPayloadLength() > size - sizeof(MessageHeader))\n        return false;\n    if (header->getCommonFlag(MessageHeader::CommonFlags::errorInPayload))\n        return false;\n    return header->getPayloadType() != 0;")],
 "trim-ternary": [("src/encoder.cpp", "        cmpFrames.back().resize(std::max(cmpFrames.back().size() - bytesLeft, minBytesPerMessage), 0);\n\n    if (cmpFrameTemplate.empty())",
                   "    {\n        const size_t used = cmpFrames.back().size() - bytesLeft;\n        cmpFrames.back().resize(used > minBytesPerMessage ? used : minBytesPerMessage, 0);\n    }\n\n    if (cmpFrameTemplate.empty())")],
 "emplace-back-frame": [("src/encoder.cpp", "    cmpFrames.push_back(cmpFrameTemplate);", "    cmpFrames.emplace_back(cmpFrameTemplate);")],
 "lookup-by-loop": [("src/status.cpp", "    auto devIt = std::find_if(\n        devices.begin(), devices.end(), [&deviceId](const DeviceStatus& device) { return device.getPacket().getDeviceId() == deviceId; });\n    return std::distance(devices.begin(), devIt);",
                     "    for (size_t i = 0; i < devices.size(); ++i)\n        if (devices[i].getPacket().getDeviceId() == deviceId)\n            return i;\n    return devices.size();")],
 "status-erase-instead-of-swap-pop": [("src/status.cpp", "        std::swap(devices[index], devices[devices.size() - 1]);\n        devices.pop_back();", "        devices.erase(devices.begin() + static_cast<std::ptrdiff_t>(index));")],
 "encoder-counter-separate-increment": [("src/encoder.cpp", "    header->setSequenceCounter(++sequenceCounter);", "    ++sequenceCounter;\n    header->setSequenceCounter(sequenceCounter);")],
 "swap-endian-builtin-16": [("include/asam_cmp/common.h", "    return ((value & 0xFF00) >> 8) | ((value & 0x00FF) << 8);", "    return static_cast<uint16_t>((value >> 8) | (value << 8));")],
 "setflag-ternary": [("src/message_header.cpp", "    commonFlags = value ? (commonFlags | static_cast<uint8_t>(mask)) : (commonFlags & ~static_cast<uint8_t>(mask));",
                      "    if (value)\n        commonFlags |= static_cast<uint8_t>(mask);\n    else\n        commonFlags &= ~static_cast<uint8_t>(mask);")],
 "packet-eq-single-expression": [("src/packet.cpp", "    if (lhs.getVersion() != rhs.getVersion())\n        return false;\n\n    if (lhs.getDeviceId() != rhs.getDeviceId())\n        return false;\n",
                                  "    if (lhs.getVersion() != rhs.getVersion() || lhs.getDeviceId() != rhs.getDeviceId())\n        return false;\n")],
 "addsegment-size-var": [("src/decoder.cpp", "    if (newPayloadSize > size - sizeof(MessageHeader))\n        return false;", "    const size_t room = size - sizeof(MessageHeader);\n    if (newPayloadSize > room)\n        return false;")],
 "decode-for-loop": [("src/decoder.cpp", "    while (curSize > 0)\n    {", "    for (; curSize > 0;)\n    {")],
 "encoder-init-inline": [("src/encoder.cpp", "    init(dataContext);\n    putPacket(packet);", "    clearEncodingMetadata(false);\n    minBytesPerMessage = dataContext.minBytesPerMessage;\n    maxBytesPerMessage = dataContext.maxBytesPerMessage;\n    putPacket(packet);")],
 "tecmp-handle-early-null-return": [("src/tecmp_decoder.cpp", "            auto payload = GetCaptureModulePayload(data, size);\n            if (payload && payload->getMessageType() == CmpHeader::MessageType::cmStatus)\n                payloads.push_back(payload);",
                                     "            auto payload = GetCaptureModulePayload(data, size);\n            if (payload == nullptr)\n                break;\n            if (payload->getMessageType() == CmpHeader::MessageType::cmStatus)\n                payloads.push_back(payload);")],
 "capture-module-end-member-fn": [("src/capture_module_payload.cpp", "    const uint8_t* end = payloadData.data() + payloadData.size();\n    str = std::string_view{};", "    const uint8_t* const end = payloadData.data() + payloadData.size();\n    str = {};")],
 "packet-swap-std": [("src/packet.cpp", "    using std::swap;\n    swap(lhs.version, rhs.version);", "    std::swap(lhs.version, rhs.version);\n    using std::swap;")],
 "tecmp-getheader-early-size": [("src/tecmp_decoder.cpp", "    if (size < sizeof(CmpHeader))\n        return {};\n\n    memcpy(&header, data, sizeof(CmpHeader));", "    if (data == nullptr || size < sizeof(CmpHeader))\n        return {};\n\n    std::memcpy(&header, data, sizeof(CmpHeader));")],
 "tecmp-can-ctor-two-ifs": [("src/tecmp_can_payload.cpp", "    if (size < sizeof(Header) || size - sizeof(Header) < getHeader()->getDlc())\n        setType(TECMP::PayloadType::invalid);", "    if (size < sizeof(Header))\n        setType(TECMP::PayloadType::invalid);\n    else if (size - sizeof(Header) < getHeader()->getDlc())\n        setType(TECMP::PayloadType::invalid);")],
 "interface-reader-if-form": [("src/interface_payload.cpp", "    return static_cast<size_t>(end - ptr) - sizeof(uint16_t) >= length ? length : 0;", "    if (static_cast<size_t>(end - ptr) - sizeof(uint16_t) < length)\n        return 0;\n    return length;")],
 "lin-validator-sum": [("src/lin_payload.cpp", "header->getDataLength() <= size - sizeof(Header));", "sizeof(Header) + header->getDataLength() <= size);")],
 "packet-create-if-chain-prefix": [("src/packet.cpp", "    switch (type.getType())\n    {\n        case PayloadType::can:", "    const auto payloadType = type.getType();\n    switch (payloadType)\n    {\n        case PayloadType::can:")],
 "encoder-bytes-to-add-size_t": [("src/encoder.cpp", "        uint16_t bytesToAdd = static_cast<uint16_t>(\n            std::min(static_cast<size_t>(bytesLeft - sizeof(MessageHeader)), packet.getPayloadLength() - currentPayloadPos));", "        const size_t room = bytesLeft - sizeof(MessageHeader);\n        const size_t rest = packet.getPayloadLength() - currentPayloadPos;\n        uint16_t bytesToAdd = static_cast<uint16_t>(std::min(room, rest));")],
 "status-update-else-if-reorder": [("src/device_status.cpp", "    if (packet.getPayload().getType() == PayloadType::ifStatMsg)\n        updateInterfaces(packet);\n\n    if (packet.getPayload().getType() == PayloadType::cmStatMsg)\n        devicePacket = packet;", "    const auto kind = packet.getPayload().getType();\n    if (kind == PayloadType::cmStatMsg)\n        devicePacket = packet;\n    else if (kind == PayloadType::ifStatMsg)\n        updateInterfaces(packet);")],
 "decoder-version-local": [("src/decoder.cpp", "    const auto streamId = header->getStreamId();", "    const auto streamId = header->getStreamId();\n    const auto version = header->getVersion();"), ("src/decoder.cpp", "            packet->setVersion(header->getVersion());", "            packet->setVersion(version);")],
 "cmpheader-getter-static-cast": [("src/cmp_header.cpp", "    return swapEndian(deviceId);", "    return static_cast<uint16_t>(swapEndian(deviceId));")],
 "can-setid-one-expression": [("src/can_payload_base.cpp", "    id &= ~idMask;\n    id |= swapEndian(newId);", "    id = (id & ~idMask) | swapEndian(newId);")],
 "lin-setparity-mask": [("src/lin_payload.cpp", "    pid |= parity << parityShift;", "    pid |= static_cast<uint8_t>((parity << parityShift) & parityMask);")],
 "payload-eq-memcmp": [("src/payload.cpp", "    for (size_t i = 0; i < lhs.getLength(); ++i)\n        if (lhsRaw[i] != rhsRaw[i])\n            return false;\n\n    return true;", "    return lhs.getLength() == 0 || memcmp(lhsRaw, rhsRaw, lhs.getLength()) == 0;")],
 "packet-assign-copy-and-swap-by-value": [("src/packet.cpp", "    if (this != &other)\n    {\n        Packet tmp(other);\n        swap(*this, tmp);\n    }\n    return *this;", "    Packet tmp(other);\n    swap(*this, tmp);\n    return *this;")],
 "decode-remaining-size_t": [("src/decoder.cpp", "        if (!isSegmentedPacket(packetPtr, curSize))\n        {", "        const bool segmented = isSegmentedPacket(packetPtr, curSize);\n        if (!segmented)\n        {")],
 "dlc-table-if-chain": [("src/can_payload_base.cpp", "        case 12:\n            return 9;\n            break;", "        case 12:\n            return 9;")],
}


def apply(d, edits):
    for ed in edits:
        f, old, new = ed[0], E(ed[1]), E(ed[2])
        mode = ed[3] if len(ed) > 3 else "one"
        p = os.path.join(d, f)
        s = open(p, "rb").read()
        if b"\r\n" in s:
            old, new = old.replace(b"\n", b"\r\n"), new.replace(b"\n", b"\r\n")
        if mode == "one":
            if s.count(old) != 1:
                return "pattern occurs %d times in %s" % (s.count(old), f)
            s = s.replace(old, new)
        elif mode == "all":
            if s.count(old) == 0:
                return "pattern absent in %s" % f
            s = s.replace(old, new)
        elif mode == "all-after-first":
            i = s.find(old)
            if i < 0:
                return "pattern absent"
            s = s[:i + len(old)] + s[i + len(old):].replace(old, new)
        open(p, "wb").write(s)
    return None


SAVE_FOR = {"key-in-local": ["C05", "C17", "C18"], "payload-ctor-copy_n": ["C02"], "validator-early-returns": ["C04", "C03"], "trim-ternary": ["C07", "C20"],
            "emplace-back-frame": ["C08", "C09"], "lookup-by-loop": ["C16"], "status-erase-instead-of-swap-pop": ["C16"],
            "encoder-counter-separate-increment": ["C09"], "addsegment-size-var": ["C02"], "isvalidpacket-early-returns": ["C03", "C02"],
            "decode-for-loop": ["C02", "C17"], "tecmp-handle-early-null-return": ["C02"]}


def save_cases():
    import subprocess
    for name, props in SAVE_FOR.items():
        d = selftest.make_scratch("/repo")
        o = selftest.make_scratch("/repo")
        try:
            if apply(d, BENIGN[name]):
                continue
            diff = subprocess.run(["git", "diff", "--no-index", "--no-prefix", o, d], stdout=subprocess.PIPE).stdout
            diff = diff.replace(o.encode()[1:] + b"/", b"a/").replace(d.encode()[1:] + b"/", b"b/")
            for p in props:
                os.makedirs(os.path.join(selftest.ST_DIR, p), exist_ok=True)
                open(os.path.join(selftest.ST_DIR, p, "b-" + name + ".patch"), "wb").write(diff)
                json.dump({"expect": "silent", "what": "behaviour-preserving refactor '%s' (tools/benign_sweep.py)" % name},
                          open(os.path.join(selftest.ST_DIR, p, "b-" + name + ".json"), "w"), indent=1)
        finally:
            shutil.rmtree(d, ignore_errors=True)
            shutil.rmtree(o, ignore_errors=True)
    print("saved")


def main():
    if len(sys.argv) > 1 and sys.argv[1] == "--save":
        return save_cases()
    flt = sys.argv[1] if len(sys.argv) > 1 else ""
    props = [c["property_id"] for c in json.load(open(os.path.join(HERE, "..", "MANIFEST.json")))["checks"]]
    bad = 0
    for name, edits in BENIGN.items():
        if flt and flt not in name:
            continue
        d = selftest.make_scratch("/repo")
        try:
            err = apply(d, edits)
            if err:
                print("%-36s SKIP %s" % (name, err))
                continue
            r = subprocess.run(["clang++", "-std=c++17", "-fsyntax-only", "-I" + d + "/include"] + [os.path.join(d, "src", x) for x in sorted(os.listdir(d + "/src")) if x.endswith(".cpp")],
                               stdout=subprocess.PIPE, stderr=subprocess.STDOUT, text=True)
            if r.returncode:
                print("%-36s DOES NOT COMPILE %s" % (name, r.stdout[-300:]))
                continue

            def one(p):
                r = subprocess.run([os.path.join(HERE, "..", "check"), p, "--root", d], stdout=subprocess.PIPE, stderr=subprocess.STDOUT, text=True)
                return p, r.returncode, r.stdout
            # first run builds the cache; then parallel
            res = [one(props[0])]
            with ThreadPoolExecutor(max_workers=8) as ex:
                res += list(ex.map(one, props[1:]))
            issues = [(p, rc, out) for p, rc, out in res if rc != 0]
            if not issues:
                print("%-36s ok" % name)
            for p, rc, out in issues:
                bad += 1
                lines = [l for l in out.splitlines() if l.startswith(("  at", "ANALYSIS")) or (l.startswith("  ") and not l.startswith("  rule"))]
                print("%-36s %s exit %d: %s" % (name, p, rc, " | ".join(x.strip()[:200] for x in lines[:3])))
        finally:
            shutil.rmtree(d, ignore_errors=True)
    print("issues:", bad)


if __name__ == "__main__":
    main()
