"""tools/agent_prompt3.py <PROP> <worktree tag>: prompt for a further seeding sub-agent (third round):
the property text plus one-line descriptions of the earlier seeds for it (to be avoided)."""
import sys, os, re, glob, subprocess
pid, tag = sys.argv[1], sys.argv[2]
prev = []
for sd in sorted(glob.glob("/verif/seeded/%s*" % pid.lower())):
    name = os.path.basename(sd)
    files = sorted(set(re.findall(r"^\+\+\+ b/(\S+)", open(sd + "/patch.diff").read(), re.M)))
    prev.append('"%s" (in %s)' % (re.sub(r"^c\d+[a-z]?-", "", name).replace("-", " "), ", ".join(files)))
base = open("/verif/tools/agent_prompt.py").read().replace('d="/tmp/wt/%s"%pid', 'd="/tmp/wt/%s"' % tag)
out = subprocess.run([sys.executable, "-c", base, pid], capture_output=True, text=True)
sys.stdout.write(out.stdout)
print("""
IMPORTANT — be different: other engineers have already proposed these seeded defects for the same property: %s. Yours must differ from all of them in BOTH mechanism and location (a different function and a different kind of mistake; preferably a different file). Think about where else in the library this property is *implemented* — sibling overloads, rarely used public API entry points, the interplay of two classes, state carried from one call to the next — and about kinds of mistake such as: a guard that becomes ineffective through reordering, state updated in one place but not in a sibling place, a condition right for the common case but wrong for a boundary or a combination, an early return that skips a needed step, a helper reused where its assumption does not hold, a copy/paste of the wrong sibling, an off-by-one in a size or index computation, a signed/unsigned or width conversion, a default argument or default member value changed, a container operation with subtly different semantics.""" % "; ".join(prev))
