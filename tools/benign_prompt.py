import sys
area, files = sys.argv[1], sys.argv[2]
d = "/tmp/wt/ben_%s" % area
print(f"""You are helping evaluate a code-analysis framework for false alarms. You have your own scratch git worktree of openDAQ/ASAM-CMP-Library (a static C++17 library that encodes/decodes ASAM CMP and TECMP automotive capture messages) at {d}. Work ONLY inside {d}. Never modify /repo, and do not read or use anything under /verif.

Your task: produce SIX independent, BEHAVIOUR-PRESERVING refactorings of the library code in this area: {files}. Each refactoring must leave the observable behaviour of the public API exactly unchanged for ALL inputs (not just tested ones) — same results, same bytes, same memory-safety, same state — while changing the SHAPE of the code the way a maintainer plausibly would in ordinary maintenance: e.g. extract a helper function, inline a helper, replace a loop by a standard algorithm or the reverse, turn a `return a && b && c` into early returns or the reverse, introduce named local variables / constants, reorder independent statements, replace `memcpy` by `std::copy_n`, switch vs if-chain, pointer-bump vs index, rename private members or locals, change a container call to an equivalent one, split a function in two, merge two branches, change `if/else` nesting, use `std::min/max/clamp` vs ternary, pass by const reference vs value for small types, etc. Make them NON-trivial (not just whitespace or comments) and varied in kind; each should touch 3-30 lines. They must be truly equivalent: think carefully about integer widths, signedness, evaluation order, aliasing, empty inputs and boundary values — if in doubt, choose another refactoring.

For EACH refactoring k = 1..6:
  1. start from a clean tree (`git -C {d} checkout -- .`),
  2. apply your edit (the source files mostly use CRLF line endings — preserve them; edit with a small python script doing a bytes replace, and check `git -C {d} diff --stat` shows only the intended lines),
  3. build and run the test suite: `cmake -S {d} -B {d}/_build -G Ninja >/dev/null && cmake --build {d}/_build -j4 2>&1 | tail -3 && {d}/_build/bin/test_asam_cmp | tail -3` — all 293 tests must pass (the build uses -Werror),
  4. save it: `mkdir -p {d}/benign && git -C {d} diff -- src include > {d}/benign/r$k.diff`, and append to {d}/benign/notes.md a short paragraph: what r$k changes and why it is behaviour-preserving for all inputs.
Never use `git stash` (the stash is shared with sibling worktrees). Finish with a clean tree (`git checkout -- .`) and the six diffs r1.diff..r6.diff plus notes.md in {d}/benign/.

Your final answer: one line per refactoring (file/function and kind of change).""")
